package main

import (
	"fmt"
	"go/types"
	"os"
	"path/filepath"
	"sort"
	"strings"

	"golang.org/x/tools/go/packages"
	"golang.org/x/tools/go/ssa"
	"golang.org/x/tools/go/ssa/ssautil"
)

// repoDir is the tree under verification: /repo. (SYMGO_REPO points the same checks at a
// scratch worktree when a seeded change is tried out; the registered commands never set it.)
var repoDir = func() string {
	if d := os.Getenv("SYMGO_REPO"); d != "" {
		return d
	}
	return "/repo"
}()

const (
	modPath   = "github.com/alligator/jqawk"
	vhPath    = modPath + "/zzverif/vh"
	extPath   = modPath + "/zzverif/ext"
	langPath  = modPath + "/src"
	cliPath   = modPath + "/cli"
	replayPkg = modPath + "/zzverif/cmd/replay"
)

func verifDir() string {
	if d := os.Getenv("VERIF_DIR"); d != "" {
		return d
	}
	exe, err := os.Executable()
	if err == nil {
		// <verif>/bin/symgo
		return filepath.Dir(filepath.Dir(exe))
	}
	return "/verif"
}

// overlayFiles maps virtual paths inside /repo to real files under /verif/harness.
// Nothing is ever written into /repo.
func overlayFiles(withInpkg bool) map[string]string {
	ov := map[string]string{}
	h := filepath.Join(verifDir(), "harness")
	add := func(srcDir, dstDir, prefix string) {
		ents, _ := os.ReadDir(filepath.Join(h, srcDir))
		for _, e := range ents {
			if e.IsDir() || !strings.HasSuffix(e.Name(), ".go") {
				continue
			}
			ov[filepath.Join(repoDir, dstDir, prefix+e.Name())] = filepath.Join(h, srcDir, e.Name())
		}
	}
	add("vh", "zzverif/vh", "")
	add("ext", "zzverif/ext", "")
	if withInpkg {
		add("inpkg", "src", "zz_verif_")
	} else {
		for virt := range ov {
			if strings.HasSuffix(virt, "_inpkg.go") {
				delete(ov, virt)
			}
		}
	}
	return ov
}

// rewrittenEvaluator regenerates, from /repo's current src/evaluator.go, the variant
// used by the in-package one-step harnesses: the bodies of evalExpr and evalStatement
// are kept verbatim under the names evalExprReal / evalStatementReal and two thin
// wrappers send every recursive evaluation to the harness's summaries while
// vhSummarise is set. The same text is used by the engine and by the native replay
// build, so summarised outcomes replay natively. If the anchors are gone (a
// refactoring renamed them) the in-package checks are skipped, not failed.
func rewrittenEvaluator() ([]byte, error) {
	b, err := os.ReadFile(filepath.Join(repoDir, "src", "evaluator.go"))
	if err != nil {
		return nil, err
	}
	s := string(b)
	for _, a := range [][2]string{
		{"func (e *Evaluator) evalExpr(expr Expr) (*Cell, error) {", "func (e *Evaluator) evalExprReal(expr Expr) (*Cell, error) {"},
		{"func (e *Evaluator) evalStatement(stmt Statement) error {", "func (e *Evaluator) evalStatementReal(stmt Statement) error {"},
	} {
		if strings.Count(s, a[0]) != 1 {
			return nil, fmt.Errorf("anchor %q not found exactly once in src/evaluator.go", a[0])
		}
		s = strings.Replace(s, a[0], a[1], 1)
	}
	s += `
// --- appended by symgo for the in-package one-step harnesses (overlay only) ---

var vhSummarise bool

func (e *Evaluator) evalExpr(expr Expr) (*Cell, error) {
	if vhSummarise {
		return vhSumEvalExpr(e, expr)
	}
	return e.evalExprReal(expr)
}

func (e *Evaluator) evalStatement(stmt Statement) error {
	if vhSummarise {
		return vhSumEvalStatement(e, stmt)
	}
	return e.evalStatementReal(stmt)
}
`
	return []byte(s), nil
}

// inpkgAnchorsOK checks that the in-package harness files still type-check against the
// current tree; if a refactoring removed an anchor they name, they are left out (the
// sub-checks that need them are reported as skipped, not as failures).
type loaded struct {
	prog    *ssa.Program
	ext     *ssa.Package
	lang    *ssa.Package
	vh      *ssa.Package
	fnNames []string // harness functions in ext (VH*)
	inpkg   bool     // in-package harness files were loaded

}

func loadProgram(extra map[string][]byte, withInpkg bool) (*loaded, error) {
	ov := map[string][]byte{}
	for virt, real := range overlayFiles(withInpkg) {
		b, err := os.ReadFile(real)
		if err != nil {
			return nil, err
		}
		ov[virt] = b
	}
	if withInpkg {
		rw, err := rewrittenEvaluator()
		if err != nil {
			return nil, err
		}
		ov[filepath.Join(repoDir, "src", "evaluator.go")] = rw
	}
	for k, v := range extra {
		ov[k] = v
	}
	cfg := &packages.Config{
		Mode:    packages.LoadAllSyntax,
		Dir:     repoDir,
		Overlay: ov,
		Env:     append(os.Environ(), "GOFLAGS=-mod=mod", "GOPROXY=off", "GOSUMDB=off", "GOTOOLCHAIN=local"),
	}
	pkgs, err := packages.Load(cfg, "./zzverif/ext")
	if err != nil {
		return nil, err
	}
	var errs []string
	packages.Visit(pkgs, nil, func(p *packages.Package) {
		for _, e := range p.Errors {
			errs = append(errs, e.Error())
		}
	})
	if len(errs) > 0 {
		return nil, fmt.Errorf("load errors:\n  %s", strings.Join(errs, "\n  "))
	}
	prog, spkgs := ssautil.AllPackages(pkgs, ssa.InstantiateGenerics)
	prog.Build()
	l := &loaded{prog: prog, ext: spkgs[0], inpkg: withInpkg}
	l.lang = prog.ImportedPackage(langPath)
	l.vh = prog.ImportedPackage(vhPath)
	for name, m := range l.ext.Members {
		if f, ok := m.(*ssa.Function); ok && strings.HasPrefix(name, "VH") && f.Signature.Params().Len() == 0 {
			l.fnNames = append(l.fnNames, name)
		}
	}
	sort.Strings(l.fnNames)
	return l, nil
}

// load loads /repo with the public-API harnesses (inpkg=false) or additionally with the
// in-package harnesses and the rewritten evaluator (inpkg=true).
func load(extra map[string][]byte) (*loaded, error) { return loadProgram(extra, false) }

func loadInpkg() (*loaded, error) { return loadProgram(nil, true) }

var stdSizes = &types.StdSizes{WordSize: 8, MaxAlign: 8}

var initAllow = []string{
	vhPath, extPath, langPath, "unicode", "strconv", "strings", "cmp", "slices", "math",
	"unicode/utf8", "math/bits", "io", "sort", "bytes", "flag", cliPath,
}

var mutablePkgs = []string{vhPath, extPath, langPath, cliPath, "flag", "os"}
