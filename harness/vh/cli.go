package vh

import (
	"flag"
	"io"
	"os"
	"path/filepath"
	"sync"
	"syscall"
	"time"
)

// Proc describes one invocation of the command-line front end: argv (without the
// program name), the files that exist, and what is on standard input. Data files and
// standard input are DocStreams (so their values may carry symbolic leaves under symgo);
// Texts are plain files (program files given with -f).
type Proc struct {
	Args  []string
	Texts map[string]string
	Data  map[string]*DocStream
	Stdin *DocStream // nil: standard input is empty (and not a terminal)
}

// ProcResult is what the invocation did.
type ProcResult struct {
	Stdout  string
	Stderr  string
	Exit    int
	Written map[string]string // files created by the run (name -> content)
}

// RunCLI runs the front end (cli.Run, passed in as run) as if it were a process of its
// own. Natively: a scratch directory with the files, os.Stdin/Stdout/Stderr and
// os.Args swapped, flag.CommandLine reset; under symgo the call is an intrinsic that
// runs the real cli.Run on an in-memory model of argv, files, descriptors and exit
// (DESIGN.md §0.6).
func RunCLI(run func(version string) int, p *Proc) ProcResult {
	dir, err := os.MkdirTemp("", "vhcli-")
	if err != nil {
		panic(err)
	}
	defer os.RemoveAll(dir)
	for name, text := range p.Texts {
		if err := os.WriteFile(filepath.Join(dir, name), []byte(text), 0o644); err != nil {
			panic(err)
		}
	}
	var feeders sync.WaitGroup
	for name, ds := range p.Data {
		if ds.OnRead != nil {
			// the harness watches the reads: the file is a named pipe fed chunk by chunk,
			// with a pause before each chunk so that a streaming reader has finished with
			// what it already has when OnRead looks at its output
			path := filepath.Join(dir, name)
			if err := syscall.Mkfifo(path, 0o600); err != nil {
				panic(err)
			}
			w, err := os.OpenFile(path, os.O_RDWR, 0)
			if err != nil {
				panic(err)
			}
			feeders.Add(1)
			go func(ds *DocStream, w *os.File) {
				defer feeders.Done()
				defer w.Close()
				for _, c := range ds.plan() {
					time.Sleep(40 * time.Millisecond)
					ds.OnRead(c.Delivered)
					buf := make([]byte, 1<<20)
					n, _ := emitChunk(ds, buf, c)
					w.Write(buf[:n])
				}
			}(ds, w)
			continue
		}
		b, _ := io.ReadAll(&DocStream{Items: ds.Items}) // injected read errors cannot live in a real file: not used by CLI harnesses
		if err := os.WriteFile(filepath.Join(dir, name), b, 0o644); err != nil {
			panic(err)
		}
	}
	// Written reports the files the run created or opened for writing; a file that
	// existed before counts when its content is no longer what it was
	before := map[string]bool{}
	old := map[string]string{}
	ents, _ := os.ReadDir(dir)
	for _, e := range ents {
		before[e.Name()] = true
		if !e.Type().IsRegular() {
			continue // a named pipe fed by the harness
		}
		b, _ := os.ReadFile(filepath.Join(dir, e.Name()))
		old[e.Name()] = string(b)
	}
	stdinPath := filepath.Join(dir, ".stdin")
	var sb []byte
	if p.Stdin != nil {
		sb, _ = io.ReadAll(&DocStream{Items: p.Stdin.Items})
	}
	os.WriteFile(stdinPath, sb, 0o644)
	before[".stdin"], before[".stdout"], before[".stderr"] = true, true, true

	oldArgs, oldIn, oldOut, oldErr, oldFlags := os.Args, os.Stdin, os.Stdout, os.Stderr, flag.CommandLine
	oldWd, _ := os.Getwd()
	inF, _ := os.Open(stdinPath)
	outF, _ := os.Create(filepath.Join(dir, ".stdout"))
	errF, _ := os.Create(filepath.Join(dir, ".stderr"))
	os.Args = append([]string{"jqawk"}, p.Args...)
	os.Stdin, os.Stdout, os.Stderr = inF, outF, errF
	flag.CommandLine = flag.NewFlagSet("jqawk", flag.ContinueOnError)
	flag.CommandLine.SetOutput(errF)
	os.Chdir(dir)
	res := ProcResult{Written: map[string]string{}}
	func() {
		defer func() {
			os.Chdir(oldWd)
			os.Args, os.Stdin, os.Stdout, os.Stderr, flag.CommandLine = oldArgs, oldIn, oldOut, oldErr, oldFlags
			inF.Close()
			outF.Close()
			errF.Close()
		}()
		res.Exit = run("test")
	}()
	feeders.Wait()
	ob, _ := os.ReadFile(filepath.Join(dir, ".stdout"))
	eb, _ := os.ReadFile(filepath.Join(dir, ".stderr"))
	res.Stdout, res.Stderr = string(ob), string(eb)
	ents, _ = os.ReadDir(dir)
	for _, e := range ents {
		if !e.Type().IsRegular() {
			continue
		}
		b, _ := os.ReadFile(filepath.Join(dir, e.Name()))
		if !before[e.Name()] || (e.Name()[0] != '.' && string(b) != old[e.Name()]) {
			res.Written[e.Name()] = string(b)
		}
	}
	return res
}

// StdoutLen is the number of bytes written to standard output so far by the front end
// running under RunCLI (natively: the size of the file standard output is redirected to).
func StdoutLen() int {
	fi, err := os.Stdout.Stat()
	if err != nil {
		return -1
	}
	return int(fi.Size())
}
