package ext

import (
	"github.com/alligator/jqawk/zzverif/vh"
)

// C15: array methods against an ideal list. Elements are one-byte symbolic strings
// (their rendering has a fixed length, so whole outputs can be compared) mixed with
// concrete numbers, booleans and null.

type c15Elem struct {
	kind int // kStr kNum kBool kNull, vArrMark for a nested array
	str  string
	num  float64
	b    bool
	arr  []c15Elem
}

const kArrElem = 9

func (e c15Elem) render(top bool) string {
	switch e.kind {
	case kStr:
		if top {
			return e.str
		}
		return "\"" + e.str + "\""
	case kNum:
		return itoa(int(e.num))
	case kBool:
		return bstr(e.b)
	case kNull:
		return "null"
	}
	return c15Render(e.arr)
}

func c15Render(l []c15Elem) string {
	s := "["
	for i, e := range l {
		if i > 0 {
			s += ", "
		}
		s += e.render(false)
	}
	return s + "]"
}

// c15Equal: `==` of §3.2 restricted to the element kinds used here (dontcare=true when
// the statement leaves the comparison open or it is an error).
func c15Equal(a, b c15Elem) (bool, bool) {
	toSv := func(e c15Elem) sv {
		switch e.kind {
		case kStr:
			return sv{kind: kStr, str: e.str}
		case kNum:
			return sv{kind: kNum, num: e.num}
		case kBool:
			return sv{kind: kBool, b: e.b}
		}
		return sv{kind: kNull}
	}
	r := specCompare("==", toSv(a), toSv(b))
	if r.kind != resBool {
		return false, true
	}
	return r.b, false
}

func c15NewElem(name string, doc map[string]any) (string, c15Elem) {
	switch vh.Choose(name+"k", 4) {
	case 0:
		// letters, and digits that spell numbers which are also element values
		s := string([]byte{vh.ByteFrom(name+"s", "05j")})
		doc[name] = s
		return "$." + name, c15Elem{kind: kStr, str: s}
	case 1:
		n := []float64{0, 10}[vh.Choose(name+"n", 2)]
		doc[name] = n
		return "$." + name, c15Elem{kind: kNum, num: n}
	case 2:
		return "true", c15Elem{kind: kBool, b: true}
	}
	return "null", c15Elem{kind: kNull}
}

const (
	oPush = iota
	oPop
	oPopFirst
	oLength
	oContains
	oSort
	oRead
	oWrite
	oSortWrite // s = H.sort(); s[0] = X: the original is untouched
	nOps
)

var c15Idx = []int{-4, -1, 0, 1, 2, 4}
var c15WIdx = []int{-4, -1, 0, 2, 4}

// VHC15Sequence: k operations on one array living in a variable, in the document or
// inside another container; result, contents and length printed after every step.
func VHC15Sequence() {
	doc := map[string]any{}
	home := vh.Choose("home", 3)
	h := []string{"a", "$.arr", "o.l"}[home]
	// initial contents: three symbolic strings; then a forced prelude of removals, so that
	// the free operations start from an array that has been longer before (whatever the
	// implementation keeps beyond the current length must stay invisible)
	e0 := vh.Bytes("e0", 1)
	e1 := vh.Bytes("e1", 1)
	e2 := vh.Bytes("e2", 1)
	vh.Assume(vh.And(vh.InRange(e0[0], 'j', 'm'), vh.InRange(e1[0], 'j', 'm')))
	vh.Assume(vh.InRange(e2[0], 'j', 'm'))
	doc["e0"], doc["e1"], doc["e2"] = e0, e1, e2
	doc["arr"] = []any{e0, e1, e2}
	list := []c15Elem{{kind: kStr, str: e0}, {kind: kStr, str: e1}, {kind: kStr, str: e2}}
	// `al` is a second holder of the same array, taken before the operations: whatever it
	// shows afterwards (see the known finding of C09), looking at it must not crash
	prog := "{ a = [$.e0, $.e1, $.e2]; o = {l: [$.e0, $.e1, $.e2]}\nal = " + h + "\n"
	want := ""
	preludes := [][]int{{}, {oPop, oPop}, {oPopFirst, oPop}, {oPop}, {oPop, oPop, oPop}}
	np := 3
	if vh.Thorough() {
		np = 5
	}
	prelude := preludes[vh.Choose("prelude", np)]
	k := len(prelude) + 2
	if vh.Thorough() {
		k = len(prelude) + 3
	}
	failed := false
	for step := 0; step < k && !failed; step++ {
		name := "x" + itoa(step)
		op := 0
		if step < len(prelude) {
			op = prelude[step]
		} else {
			op = vh.Choose("op"+itoa(step), nOps)
		}
		switch op {
		case oPush:
			txt, e := c15NewElem(name, doc)
			list = append(list, e)
			prog += "print " + h + ".push(" + txt + ")\n"
			want += c15Render(list) + "\n"
		case oPop:
			prog += "print " + h + ".pop()\n"
			if len(list) == 0 {
				want += "null\n"
			} else {
				want += list[len(list)-1].render(true) + "\n"
				list = list[:len(list)-1]
			}
		case oPopFirst:
			prog += "print " + h + ".popfirst()\n"
			if len(list) == 0 {
				want += "null\n"
			} else {
				want += list[0].render(true) + "\n"
				list = append([]c15Elem{}, list[1:]...)
			}
		case oLength:
			prog += "print " + h + ".length()\n"
			want += itoa(len(list)) + "\n"
		case oContains:
			txt, e := c15NewElem(name, doc)
			prog += "print " + h + ".contains(" + txt + ")\n"
			found := false
			for _, it := range list {
				eq, dc := c15Equal(e, it)
				if dc {
					return
				}
				if eq {
					found = true
					break
				}
			}
			want += bstr(found) + "\n"
		case oSort:
			prog += "print " + h + ".sort()\n"
			// reference: stable insertion sort; numeric if all numbers, else by string form
			allNum := true
			for _, it := range list {
				if it.kind != kNum {
					allNum = false
				}
			}
			sorted := append([]c15Elem{}, list...)
			key := func(e c15Elem) string {
				switch e.kind {
				case kStr:
					return e.str
				case kNum:
					return itoa(int(e.num))
				}
				return "" // booleans and null have an empty string form
			}
			for i := 1; i < len(sorted); i++ {
				for j := i; j > 0; j-- {
					var less bool
					if allNum {
						less = sorted[j].num < sorted[j-1].num
					} else {
						less = key(sorted[j]) < key(sorted[j-1])
					}
					if !less {
						break
					}
					sorted[j], sorted[j-1] = sorted[j-1], sorted[j]
				}
			}
			want += c15Render(sorted) + "\n"
		case oSortWrite:
			prog += "srt = " + h + ".sort()\nsrt[0] = 9\nsrt.push(9)\n"
		case oRead:
			i := c15Idx[vh.Choose("i"+itoa(step), len(c15Idx))]
			prog += "print " + h + "[" + itoa2(i) + "]\n"
			j := i
			if j < 0 {
				j += len(list)
			}
			switch {
			case j < 0:
				failed = true // an index before the start is an error
			case j >= len(list):
				want += "null\n"
			default:
				want += list[j].render(true) + "\n"
			}
		case oWrite:
			i := c15WIdx[vh.Choose("i"+itoa(step), len(c15WIdx))]
			txt, e := c15NewElem(name, doc)
			prog += h + "[" + itoa2(i) + "] = " + txt + "\n"
			j := i
			if j < 0 {
				j += len(list)
			}
			if j < 0 {
				failed = true
				break
			}
			for len(list) <= j {
				list = append(list, c15Elem{kind: kNull})
			}
			list[j] = e
		}
		if !failed {
			prog += "print " + h + ", " + h + ".length()\n"
			want += c15Render(list) + " " + itoa(len(list)) + "\n"
		}
	}
	if !failed {
		prog += "for (q in al) { cnt++; tmp = q }\ntmp = [al[0], al.length()]\n"
	}
	prog += "}\nENDFILE { for (k, v in $) { tmp = v; if (v is array) { for (q in v) { tmp = q } } } }"
	out, kc := runProg(prog, doc)
	vh.Reach("sequence evaluated")
	if failed {
		vh.Assert(kc == ErrRuntime, "C15: an index before the start of the array is a runtime error")
		vh.Assert(out == want, "C15: the steps before the failing one behave like the list")
		return
	}
	vh.Assert(kc == OK, "C15: the operation sequence runs")
	vh.Assert(out == want, "C15: results, contents and length after every step equal the ideal list's")
}

func itoa2(i int) string {
	if i < 0 {
		return "0 - " + itoa(-i)
	}
	return itoa(i)
}

var c15Nested = [][2]string{
	{"BEGIN { a = []; b = []; a.push(b.push(1)); print a, b }", "[[1]] [1]\n"},
	{"BEGIN { a = [1, 2]; a.push(a.pop()); print a }", "[1, 2]\n"},
	{"BEGIN { a = [1, 2]; b = [3]; print a.contains(b.pop()), a, b }", "false [1, 2] []\n"},
	{"BEGIN { a = [1]; b = [2]; a.push(b.popfirst()); print a, b, a.length(), b.length() }", "[1, 2] [] 2 0\n"},
	{"BEGIN { a = [3, 1]; b = [2]; b.push(a.sort().length()); print a, b }", "[3, 1] [2, 2]\n"},
	{"BEGIN { a = [1]; b = [5, 6]; a.push(b.length()); print a, b }", "[1, 2] [5, 6]\n"},
	{"BEGIN { a = []; o = {l: [9]}; a.push(o.l.pop()); print a, o.l }", "[9] []\n"},
	{"BEGIN { a = [2, 1]; s = a.sort(); s.push(0); print a, s }", "[2, 1] [1, 2, 0]\n"},
	{"BEGIN { a = ['b', 'a', 'B', 10, 9]; print a.sort(), a }", "[10, 9, \"B\", \"a\", \"b\"] [\"b\", \"a\", \"B\", 10, 9]\n"},
	{"BEGIN { a = [10, 9, 1]; print a.sort() }", "[1, 9, 10]\n"},
	{"BEGIN { a = [3, 1, 2]; s = a.sort(); s[0] = 99; s[2] += 1; print a, s }", "[3, 1, 2] [99, 2, 4]\n"},
	{"BEGIN { a = [[2], [1]]; s = a.sort(); a[0] = 7; print s.length(), a }", "2 [7, [1]]\n"},
	{"BEGIN { a = [1, null, 'x']; print a.contains(null), a.contains('x'), a.contains(2) }", "true true false\n"},
	// the receiver is determined before the arguments are evaluated
	{"BEGIN { m = [[10], [20]]; m[m.length() - 1].push(m.pop().length()); print m }", "[[10]]\n"},
	{"BEGIN { m = [[1], [2], [3]]; print m[0].push(m.popfirst()[0] + 10), m }", "[1, 11] [[2], [3]]\n"},
	{"BEGIN { i = 0; a = [[1], [2]]; print a[i].contains((i = 1)), a[i] }", "true [2]\n"},
	// stability on arrays longer than any small-slice special case: elements that tie on
	// their string form (1 and '1', true / null / []) keep their order
	{"BEGIN { a = ['1', 1, '1', 1, '1', 1, '1', 1, '1', 1, '1', 1, '1', 1, 0]; print a.sort() }", "[0, \"1\", 1, \"1\", 1, \"1\", 1, \"1\", 1, \"1\", 1, \"1\", 1, \"1\", 1]\n"},
	{"BEGIN { a = [2, '2', 1, '1', 2, '2', 1, '1', 2, '2', 1, '1', 2, '2', 1, '1', 2, '2', 1, '1']; print a.sort() }", "[1, \"1\", 1, \"1\", 1, \"1\", 1, \"1\", 1, \"1\", 2, \"2\", 2, \"2\", 2, \"2\", 2, \"2\", 2, \"2\"]\n"},
	{"BEGIN { a = ['b', true, null, 'a', false, null, true, 'b', null, false, 'a', true, null, false, 'c', true]; print a.sort() }", "[true, null, false, null, true, null, false, true, null, false, true, \"a\", \"a\", \"b\", \"b\", \"c\"]\n"},
	// a null read from a missing index of ANOTHER array, handed to a method: writing
	// through the receiver afterwards never reaches the other array
	{"BEGIN { a = [1]; b = []; b.push(a[3]); b[0] = 7; print a, b, a.length() }", "[1] [7] 1\n"},
	{"BEGIN { a = [1]; b = [a[5], 2]; b[0] = 7; print a, b }", "[1] [7, 2]\n"},
	{"BEGIN { a = [1]; o = {}; b = [0]; print b.contains(a[2]), b.contains(o.k), a, o; b[0] = a[2]; b[0] = 5; print a, b }", "false false [1] {}\n[1] [5]\n"},
}

// VHC15Nested: each method acts on the array it was invoked on, also when calls are
// nested inside each other's arguments; sort leaves the original untouched.
func VHC15Nested() {
	c := c15Nested[vh.Choose("case", len(c15Nested))]
	out, k := runProg(c[0])
	vh.Reach("nested calls evaluated")
	vh.Assert(k == OK, "C15: nested method calls run: "+c[0])
	vh.Assert(out == c[1], "C15: each method acts on the array it was invoked on: "+c[0])
}
