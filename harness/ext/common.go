// Package ext holds the harnesses that use only jqawk's exported API.
package ext

import (
	lang "github.com/alligator/jqawk/src"
	"github.com/alligator/jqawk/zzverif/vh"
)

// Outcome classes of a run (C01: these are the only legal ones besides success).
const (
	OK = iota
	ErrSyntax
	ErrRuntime
	ErrJSON
	ErrOther // anything else escaping to the caller violates C01
)

func classify(err error) int {
	if err == nil {
		return OK
	}
	switch err.(type) {
	case lang.SyntaxError:
		return ErrSyntax
	case lang.RuntimeError:
		return ErrRuntime
	case lang.JsonError:
		return ErrJSON
	}
	return ErrOther
}

// legal asserts the C01 outcome obligation that every harness carries.
func legal(err error, where string) int {
	k := classify(err)
	vh.Assert(k != ErrOther, "C01: "+where+": error of a foreign kind (internal signal or raw error) reached the caller")
	return k
}

// evalExpr runs lang.EvalExpression on a document.
func evalExpr(src string, doc any) (*lang.Cell, int, string) {
	var out vh.Out
	cell, err := lang.EvalExpression(src, doc, &out)
	k := legal(err, "EvalExpression")
	return cell, k, out.String()
}

// runProg runs lang.EvalProgram on a stream of documents (one file named "f1").
func runProg(prog string, docs ...any) (string, int) {
	var out vh.Out
	ds := &vh.DocStream{Items: docs}
	_, err := lang.EvalProgram(prog, []lang.InputFile{{Name: "f1", Reader: ds}}, nil, &out, false)
	return out.String(), legal(err, "EvalProgram")
}

func isNum(c *lang.Cell) bool { return c != nil && c.Value.Tag == lang.ValueNum && c.Value.Num != nil }
func isBool(c *lang.Cell) bool {
	return c != nil && c.Value.Tag == lang.ValueBool && c.Value.Bool != nil
}
func isStr(c *lang.Cell) bool  { return c != nil && c.Value.Tag == lang.ValueStr && c.Value.Str != nil }
func isNull(c *lang.Cell) bool { return c != nil && c.Value.Tag == lang.ValueNil }
