package ext

import (
	"github.com/alligator/jqawk/cli"
	"strings"

	lang "github.com/alligator/jqawk/src"
	"github.com/alligator/jqawk/zzverif/vh"
)

// C03 (the part jqawk's own code decides): a stream is processed value by value; the
// first item that is not a complete value is reported as a JSON input error naming the
// file, after every earlier value was processed normally and completely; the reader is
// never asked for more input before the output of the value just read is written.

const c03Prog = "BEGINFILE { print 'BF' }\n{ print $.t, $.b }\nENDFILE { print 'EF' }\nEND { print 'END' }"

func c03Item(name string, kind int, tag string) (any, string, bool) {
	switch kind {
	case 0: // a complete value
		b := vh.Bool(name + "b")
		return map[string]any{"t": tag, "b": b}, "BF\n" + tag + " " + bstr(b) + "\nEF\n", true
	case 1:
		return vh.Fault{Kind: vh.Garbage, Text: "@@"}, "", false
	case 2:
		return vh.Fault{Kind: vh.StrayClose, Text: "]"}, "", false
	case 3:
		return vh.Fault{Kind: vh.StrayClose, Text: "}"}, "", false
	case 4:
		return vh.Fault{Kind: vh.ReadErr}, "", false
	case 6:
		// one arbitrary byte that is neither JSON white space nor the beginning of a value
		g := vh.Bytes(name+"g", 1)
		vh.Assume(vh.Not(vh.OneOf(g[0], " \t\n\r\"{[]}-0123456789tfn")))
		return vh.Fault{Kind: vh.Garbage, Text: g}, "", false
	case 8:
		return vh.Fault{Kind: vh.ReadErrEOF}, "", false
	case 7:
		// three arbitrary bytes (a byte-order mark, a stray word ...), the first of which
		// cannot begin a value
		g := vh.Bytes(name+"g3", 3)
		vh.Assume(vh.Not(vh.OneOf(g[0], " \t\n\r\"{[]}-0123456789tfn")))
		return vh.Fault{Kind: vh.Garbage, Text: g}, "", false
	}
	return vh.Fault{Kind: vh.Truncated, Text: "{\"t\": 1, \"b\":"}, "", false
}

// VHC03Faults: a symbolic-position fault in a stream of k items.
func VHC03Faults() {
	k := 1 + vh.Choose("k", 3)
	if vh.Thorough() {
		k = 1 + vh.Choose("k4", 4)
	}
	var items []any
	want := ""
	bad := -1
	for i := 0; i < k; i++ {
		kind := vh.Choose("kind"+itoa(i), 9)
		if kind == 5 && i != k-1 {
			kind = 0 // a truncated value can only be the last thing in a stream
		}
		it, o, ok := c03Item("i"+itoa(i), kind, "v"+itoa(i))
		items = append(items, it)
		if bad < 0 {
			if ok {
				want += o
			} else {
				bad = i
			}
		}
	}
	var out vh.Out
	type req struct{ pos, outLen int }
	var reqs []req // output length whenever the reader is asked for more input
	// how items and errors are packed into Read calls is part of the quantifier
	ds := &vh.DocStream{Items: items, Mode: vh.Choose("mode", 5)}
	ds.OnRead = func(delivered int) { reqs = append(reqs, req{delivered, out.Len()}) }
	_, err := lang.EvalProgram(c03Prog, []lang.InputFile{{Name: "in.json", Reader: ds}}, nil, &out, false)
	kcls := legal(err, "EvalProgram")
	vh.Reach("stream evaluated")
	if bad < 0 {
		vh.Reach("clean stream")
		vh.Assert(kcls == OK, "C03: a stream of complete values is processed without error")
		vh.Assert(out.String() == want+"END\n", "C03: processing a stream equals processing its values one after another")
	} else {
		vh.Reach("faulty stream")
		vh.Assert(kcls == ErrJSON, "C03: a malformed / truncated / unreadable item is a JSON input error, never silently end of input")
		je, _ := err.(lang.JsonError)
		vh.Assert(je.FileName == "in.json", "C03: the JSON error names the file")
		vh.Assert(out.String() == want, "C03: every complete value before the fault is processed normally, nothing after it, no rule on the partial value")
	}
	// incremental processing: whenever the reader is asked for more input, the output of
	// every complete value it has already delivered is written (no read-ahead, no
	// batching) and nothing else
	for _, r := range reqs {
		exp := 0
		for i := 0; i < r.pos && i < len(items) && (bad < 0 || i < bad); i++ {
			_, o, _ := c03Prefix(items, i)
			exp += len(o)
		}
		if bad < 0 || r.pos <= bad {
			vh.Assert(r.outLen == exp, "C03: output of every delivered value is complete before more input is requested")
		}
	}
}

// c03Prefix returns the expected output of item i (which must be a complete value).
func c03Prefix(items []any, i int) (any, string, bool) {
	m := items[i].(map[string]any)
	return nil, "BF\n" + m["t"].(string) + " " + bstr(m["b"].(bool)) + "\nEF\n", true
}

// VHC03Files: a fault in the first file stops the run there and names that file.
func VHC03Files() {
	b1 := vh.Bool("b1")
	b2 := vh.Bool("b2")
	faultIn := vh.Choose("faultIn", 3) // 0 none, 1 first file, 2 second file
	fk := []int{1, 2, 3, 4, 5, 8}[vh.Choose("fk", 6)]
	mk := func(tag string, b bool, fault bool) *vh.DocStream {
		items := []any{map[string]any{"t": tag, "b": b}}
		if fault {
			f, _, _ := c03Item("x", fk, "")
			items = append(items, f)
		}
		return &vh.DocStream{Items: items, Mode: vh.Choose("mode", 5)}
	}
	var out vh.Out
	files := []lang.InputFile{{Name: "one", Reader: mk("a", b1, faultIn == 1)}, {Name: "two", Reader: mk("c", b2, faultIn == 2)}}
	_, err := lang.EvalProgram(c03Prog, files, nil, &out, false)
	k := legal(err, "EvalProgram")
	o1 := "BF\na " + bstr(b1) + "\nEF\n"
	o2 := "BF\nc " + bstr(b2) + "\nEF\n"
	vh.Reach("files evaluated")
	switch faultIn {
	case 0:
		vh.Assert(k == OK && out.String() == o1+o2+"END\n", "C03: two clean files")
	case 1:
		je, _ := err.(lang.JsonError)
		vh.Assert(k == ErrJSON && je.FileName == "one", "C03: a fault in the first file is reported for that file")
		vh.Assert(out.String() == o1, "C03: nothing of the second file runs after a fault in the first")
	case 2:
		je, _ := err.(lang.JsonError)
		vh.Assert(k == ErrJSON && je.FileName == "two", "C03: a fault in the second file is reported for that file")
		vh.Assert(out.String() == o1+o2, "C03: earlier files and values are processed normally")
	}
}

var c03Sparse = []string{
	"BEGIN { print 'B' }",
	"END { print 'E' }",
	"",
	"ENDFILE { print 'EF' }",
	"BEGIN { print 'B' }\nBEGIN { x = 1 }",
	"$.nosuch { print 'never' }",
	"function f() { return 1 }",
	"BEGINFILE { print 'BF' }",
}

// VHC03Programs: whether a fault in the input is reported does not depend on what the
// program does with the input: programs made only of BEGIN rules, only of END rules,
// of nothing at all ... still read every value and report the first fault.
func VHC03Programs() {
	prog := c03Sparse[vh.Choose("prog", len(c03Sparse))]
	nvals := vh.Choose("nvals", 3)
	var items []any
	for i := 0; i < nvals; i++ {
		items = append(items, map[string]any{"t": "v" + itoa(i), "b": true})
	}
	fk := vh.Choose("fk", 9)
	if fk != 0 {
		f, _, _ := c03Item("x", fk, "")
		items = append(items, f)
	}
	var out vh.Out
	ds := &vh.DocStream{Items: items, Mode: vh.Choose("mode", 5)}
	_, err := lang.EvalProgram(prog, []lang.InputFile{{Name: "in.json", Reader: ds}}, nil, &out, false)
	k := legal(err, "EvalProgram")
	vh.Reach("sparse program evaluated")
	if fk == 0 {
		vh.Assert(k == OK, "C03: a clean stream is accepted whatever the program: "+lbl(prog))
		return
	}
	vh.Assert(k == ErrJSON, "C03: a fault in the input is a JSON input error whatever the program does with the input: "+lbl(prog))
	je, _ := err.(lang.JsonError)
	vh.Assert(je.FileName == "in.json", "C03: the JSON error names the file: "+lbl(prog))
	vh.Assert(!strings.Contains(out.String(), "E\n"), "C03: END rules do not run after a JSON input error")
}

// VHC03Cli: the incremental clause through the command line: whenever the tool asks a
// named input file for more bytes, everything the values already delivered make it print
// has been written to standard output.
func VHC03Cli() {
	k := 2 + vh.Choose("k", 2)
	var items []any
	var outs []string
	for i := 0; i < k; i++ {
		b := vh.Bool("b" + itoa(i))
		items = append(items, map[string]any{"t": "v" + itoa(i), "b": b})
		outs = append(outs, "BF\nv"+itoa(i)+" "+bstr(b)+"\nEF\n")
	}
	ds := &vh.DocStream{Items: items, Mode: vh.Choose("mode", 3)}
	type req struct{ delivered, outLen int }
	var reqs []req
	ds.OnRead = func(delivered int) { reqs = append(reqs, req{delivered, vh.StdoutLen()}) }
	p := &vh.Proc{Texts: map[string]string{}, Data: map[string]*vh.DocStream{"in.json": ds}}
	p.Args = []string{c03Prog, "in.json"}
	res := vh.RunCLI(cli.Run, p)
	vh.Reach("front end streamed a file")
	want := ""
	for _, o := range outs {
		want += o
	}
	vh.Assert(res.Exit == 0 && res.Stdout == want+"END\n", "C03: the tool processes the file's values one after another")
	vh.Assert(len(reqs) > 0, "C03: the file is read")
	for _, r := range reqs {
		exp := 0
		for i := 0; i < r.delivered && i < len(outs); i++ {
			exp += len(outs[i])
		}
		vh.Assert(r.outLen == exp, "C03: before the tool reads on, the output of every value it already has is written (a named file is streamed, not read whole)")
	}
}
