package ext

import (
	lang "github.com/alligator/jqawk/src"
	"github.com/alligator/jqawk/zzverif/vh"
)

// C19 reference: first case in source order, first alternative that matches; literal
// patterns match when v == literal, identifiers match anything and bind, array patterns
// match arrays of the same length element-wise, binding recursively.

const (
	vNum = iota
	vStr
	vNull
	vBool
	vArr
	vUnset = 7 // an unset variable
)

type c19Val struct {
	kind  int
	num   float64
	str   string
	b     bool
	items []c19Val
}

const (
	pLitNum = iota
	pLitStr
	pIdent
	pArr
)

type c19Pat struct {
	kind  int
	num   float64 // pLitNum (value of the symbolic digit)
	text  string  // literal spelling / identifier name
	items []c19Pat
}

var c19Leaf = []float64{1, 2, 3}

func c19NumVal(name string) c19Val { return c19Val{kind: vNum, num: vh.FloatFrom(name, c19Leaf)} }

func (v c19Val) doc() any {
	switch v.kind {
	case vNum:
		return v.num
	case vStr:
		return v.str
	case vNull:
		return nil
	case vBool:
		return v.b
	}
	out := make([]any, len(v.items))
	for i, it := range v.items {
		out[i] = it.doc()
	}
	return out
}

func c19Subject() c19Val {
	switch vh.Choose("subj", 9) {
	case 0:
		return c19NumVal("s0")
	case 1:
		return c19Val{kind: vStr, str: "s"}
	case 2:
		return c19Val{kind: vNull}
	case 3:
		return c19Val{kind: vBool, b: vh.Bool("sb")}
	case 4:
		return c19Val{kind: vArr}
	case 5:
		return c19Val{kind: vArr, items: []c19Val{c19NumVal("s0")}}
	case 6:
		return c19Val{kind: vArr, items: []c19Val{c19NumVal("s0"), c19NumVal("s1")}}
	case 7:
		return c19Val{kind: vArr, items: []c19Val{{kind: vArr, items: []c19Val{c19NumVal("s0")}}, c19NumVal("s1")}}
	}
	return c19Val{kind: vArr, items: []c19Val{c19NumVal("s0"), {kind: vStr, str: "s"}, c19Val{kind: vNull}}}
}

func c19LitNum(name string) c19Pat {
	d := vh.Byte(name)
	vh.Assume(vh.InRange(d, '1', '3'))
	return c19Pat{kind: pLitNum, num: vh.FloatFrom(name+"v", c19Leaf), text: string([]byte{d})}
}

// c19LitNumTied creates a numeric literal whose digit and value are tied together.
func c19LitNumTied(name string) c19Pat {
	i := vh.IntFrom(name, []int{0, 1, 2}) // a table: no FP theory (see term.go, table lifting)
	digit := byte('1') + byte(i)
	return c19Pat{kind: pLitNum, num: float64(i) + 1, text: string([]byte{digit})}
}

func c19Pattern(name string, idents *int) c19Pat {
	id := func() c19Pat {
		*idents++
		return c19Pat{kind: pIdent, text: "v" + itoa(*idents)}
	}
	switch vh.Choose(name, 9) {
	case 8: // binds first, compares afterwards: a mismatch comes after a name was bound
		return c19Pat{kind: pArr, items: []c19Pat{id(), c19LitNumTied(name + "d")}}
	case 0:
		return c19LitNumTied(name + "d")
	case 1:
		return c19Pat{kind: pLitStr, text: "s"}
	case 2:
		return id()
	case 3:
		return c19Pat{kind: pArr}
	case 4:
		return c19Pat{kind: pArr, items: []c19Pat{c19LitNumTied(name + "d"), id()}}
	case 5:
		return c19Pat{kind: pArr, items: []c19Pat{id(), id()}}
	case 6:
		return c19Pat{kind: pArr, items: []c19Pat{{kind: pArr, items: []c19Pat{c19LitNumTied(name + "d")}}, id()}}
	}
	return c19Pat{kind: pArr, items: []c19Pat{id()}}
}

func (p c19Pat) render() string {
	switch p.kind {
	case pLitNum:
		return p.text
	case pLitStr:
		return "'" + p.text + "'"
	case pIdent:
		return p.text
	}
	s := "["
	for i, it := range p.items {
		if i > 0 {
			s += ", "
		}
		s += it.render()
	}
	return s + "]"
}

func (p c19Pat) idents(out []string) []string {
	switch p.kind {
	case pIdent:
		return append(out, p.text)
	case pArr:
		for _, it := range p.items {
			out = it.idents(out)
		}
	}
	return out
}

// c19Match: (matches, bindings in pattern order, dontcare)
func c19Match(p c19Pat, v c19Val, binds []c19Val) (bool, []c19Val, bool) {
	switch p.kind {
	case pIdent:
		return true, append(binds, v), false
	case pLitNum:
		switch v.kind {
		case vNum:
			return v.num == p.num, binds, false
		case vArr:
			return false, binds, true // `==` on a container: error vs no match is left open
		case vBool:
			// bool == number compares numeric coercions
			return vh.IteFloat(v.b, 1, 0) == p.num, binds, false
		case vStr:
			return false, binds, false // "s" coerces to 0, literals are 1..3
		}
		return false, binds, false // null is below every number
	case pLitStr:
		switch v.kind {
		case vStr:
			return v.str == p.text, binds, false
		case vArr:
			return false, binds, true
		case vNum:
			return false, binds, false // "s" -> 0 vs 1..3
		case vBool:
			return !v.b, binds, false // "s" -> 0 == false -> 0
		}
		return false, binds, false
	}
	if v.kind != vArr || len(v.items) != len(p.items) {
		return false, binds, false
	}
	for i := range p.items {
		ok, b2, dc := c19Match(p.items[i], v.items[i], binds)
		if dc {
			return false, binds, true
		}
		if !ok {
			return false, binds, false
		}
		binds = b2
	}
	return true, binds, false
}

func c19Same(c *lang.Cell, v c19Val) bool {
	if c == nil {
		return false
	}
	switch v.kind {
	case vNum:
		return isNum(c) && vh.SameFloat(*c.Value.Num, v.num)
	case vStr:
		return isStr(c) && *c.Value.Str == v.str
	case vNull:
		return isNull(c)
	case vBool:
		return isBool(c) && vh.Iff(*c.Value.Bool, v.b)
	case vUnset:
		return c.Value.Tag == lang.ValueUnknown
	}
	if c.Value.Tag != lang.ValueArray || len(c.Value.Array) != len(v.items) {
		return false
	}
	ok := true
	for i := range v.items {
		ok = vh.And(ok, c19Same(c.Value.Array[i], v.items[i]))
	}
	return ok
}

// VHC19Match: case lists generated from a skeleton, subject with symbolic leaves.
func VHC19Match() {
	subj := c19Subject()
	ncases := 1 + vh.Choose("ncases", 2)
	if vh.Thorough() {
		ncases = 1 + vh.Choose("ncases3", 3)
	}
	type caseT struct {
		alts  []c19Pat
		block bool
		bkind int // what the block body holds
		names []string
	}
	var cases []caseT
	nid := 0
	src := "match ($.v) { "
	for ci := 0; ci < ncases; ci++ {
		nalts := 1
		c := caseT{}
		if ci == 0 || vh.Thorough() {
			// quick tier: only the first case has alternatives and block bodies
			nalts = 1 + vh.Choose("nalts"+itoa(ci), 2)
			c.block = vh.Choose("block"+itoa(ci), 2) == 1
		}
		for ai := 0; ai < nalts; ai++ {
			p := c19Pattern("p"+itoa(ci)+itoa(ai), &nid)
			c.alts = append(c.alts, p)
			if ai > 0 {
				src += ", "
			}
			src += p.render()
		}
		src += " => "
		// the body names the case and lists every name ANY alternative of the case can
		// bind: names the matching alternative did not bind must be unset there (a name
		// bound by an earlier, failed alternative must not leak)
		var names []string
		for _, a := range c.alts {
			names = a.idents(names)
		}
		c.names = names
		if c.block {
			// whatever a block holds - also a single expression statement with a value of
			// its own, or nothing at all - the match yields null
			c.bkind = (nid + ci + ncases + nalts) % 5 // varies with the shape of the case list, without multiplying it
			if vh.Thorough() {
				c.bkind = vh.Choose("bkind"+itoa(ci), 5)
			}
			tag := "printf('b" + itoa(ci) + "')"
			src += []string{"{ " + tag + " }", "{ " + tag + "; 41 + 1 }", "{ 41 + 1 }", "{ }", "{ blk = 'set'; if (blk) { " + tag + "; 9 } }"}[c.bkind]
		} else {
			src += "[" + itoa(ci)
			for _, id := range names {
				src += ", " + id
			}
			src += "]"
		}
		if ci+1 < ncases {
			src += ", "
		}
		cases = append(cases, c)
	}
	src += " }"
	cell, k, out := evalExpr(src, map[string]any{"v": subj.doc()})
	vh.Reach("match evaluated")

	for ci, c := range cases {
		for _, p := range c.alts {
			ok, binds, dc := c19Match(p, subj, nil)
			if dc {
				vh.Reach("dont-care (container == literal)")
				return
			}
			if !ok {
				continue
			}
			vh.Reach("a case matched")
			vh.Assert(k == OK, "C19: a matching case must not fail")
			if c.block {
				vh.Assert(isNull(cell), "C19: a block body yields null")
				wantOut := "b" + itoa(ci)
				if c.bkind == 2 || c.bkind == 3 {
					wantOut = ""
				}
				vh.Assert(out == wantOut, "C19: exactly the body of the first matching case runs")
				return
			}
			vh.Assert(out == "", "C19: no other body runs")
			want := c19Val{kind: vArr, items: []c19Val{{kind: vNum, num: float64(ci)}}}
			bound := p.idents(nil)
			for _, name := range c.names {
				v := c19Val{kind: vUnset}
				for bi, bn := range bound {
					if bn == name {
						v = binds[bi]
					}
				}
				want.items = append(want.items, v)
			}
			vh.Assert(c19Same(cell, want), "C19: the value is that of the first matching case's body, with the pattern's names bound")
			return
		}
	}
	vh.Reach("no case matched")
	vh.Assert(k == OK && isNull(cell) && out == "", "C19: no matching case yields null and runs nothing")
}

var c19UnsetProgs = [][2]string{
	// a literal pattern matches when `subject == literal`: for an unset subject that is false for every literal
	{"BEGIN { print match (nosuch) { 0 => 'zero', z => 'any' } }", "any\n"},
	{"BEGIN { print match (nosuch) { '' => 'empty', false => 'false', null => 'null', z => 'any' } }", "any\n"},
	{"BEGIN { print match ([nosuch, 1]) { [0, 1] => 'zero', [a, 1] => 'pair', z => 'other' } }", "pair\n"},
	{"BEGIN { print match (nosuch) { z => z is unknown } }", "true\n"},
	{"BEGIN { print match (nosuch) { 1, 2 => 'num' } is null }", "true\n"},
	{"{ print match ($.missing) { 0 => 'zero', null => 'null', z => 'any' } }", "null\n"},
	// a match nested in a case body that binds the SAME name again: the outer binding is back afterwards
	{"BEGIN { print match ([1, [2, 3]]) { [a, b] => (match (b) { [a, c] => a + c }) + a } }", "6\n"},
	{"BEGIN { print match (7) { v => [match (8) { v => v }, v, match ([v]) { [v] => v + 1 }, v] } }", "[8, 7, 8, 7]\n"},
	{"BEGIN { v = 'g'; x = match (1) { v => match (2) { v => v } }\nprint x, v }", "2 g\n"},
	// names of builtins and functions used as pattern names are ordinary bindings, also one level down
	{"BEGIN { print match (5) { num => match (1) { one => num + one } } }", "6\n"},
	{"BEGIN { print match (2) { json => [json, match (0) { z => json }] } }", "[2, 2]\n"},
	{"function f() { return 9 }\nBEGIN { print match (3) { f => [f, match (0) { z => f + 1 }] } }", "[3, 4]\n"},
	{"BEGIN { print match (4) { printf => match ([printf]) { [length] => length + printf } } }", "8\n"},
}

// VHC19Unset: an unset subject (or element) is matched by identifiers and by no literal;
// pattern names that coincide with builtins or functions are ordinary bindings.
func VHC19Unset() {
	c := c19UnsetProgs[vh.Choose("case", len(c19UnsetProgs))]
	out, k := runProg(c[0], map[string]any{"a": 1.0})
	vh.Reach("special subject evaluated")
	vh.Assert(k == OK, "C19: the match runs: "+lbl(c[0]))
	vh.Assert(out == c[1], "C19: "+lbl(c[0]))
}
