package ext

import (
	"github.com/alligator/jqawk/cli"
	"strings"

	lang "github.com/alligator/jqawk/src"
	"github.com/alligator/jqawk/zzverif/vh"
)

var c01Jumps = []string{"next", "exit", "return", "return 1", "break", "continue"}

// contexts a jump statement can be placed in ('@' = the jump)
var c01Contexts = []string{
	"BEGIN { print 'a'; @; print 'b' }",
	"END { print 'a'; @; print 'b' }",
	"BEGINFILE { print 'a'; @; print 'b' }",
	"ENDFILE { print 'a'; @; print 'b' }",
	"{ print 'a'; @; print 'b' }",
	"$.p { @ }\n{ print 'second' }",
	"function f() { print 'f'; @; print 'g' }\n{ f(); print 'b' }",
	"function f() { print 'f'; @; print 'g' }\nBEGIN { f(); print 'b' }",
	"function f() { @ }\nEND { x = f() + 1; print 'b' }",
	"function f() { @ }\nBEGINFILE { f() }\nENDFILE { f() }",
	"{ x = match (1) { 1 => { @ } }\nprint 'b' }",
	"BEGIN { x = match (1) { 1 => { @ } }\nprint 'b' }",
	"match (1) { 1 => { @ } } { print 'body' }",
	"{ if (1) { @ } print 'b' }",
	"{ while (1) { @ } print 'b' }",
	"{ for (i = 0; i < 2; i++) { @ } print 'b' }",
	"{ for (q in [1, 2]) { @ } print 'b' }",
	"BEGIN { for (q in [1, 2]) { while (1) { @ } } print 'b' }",
	"{ n = 0; while (match (1) { z => { @ } }) { n++; if (n > 1) break } print 'b' }",
	"BEGIN { for (i = match (1) { z => { @ } }; i < 1; i++) { } print 'b' }",
	"BEGIN { n = 0; for (i = 0; match (1) { z => { @ } }; i++) { n++; if (n > 1) break } print 'b' }",
	"BEGIN { for (i = 0; i < 1; i = match (1) { z => { @ } }) { i = 5 } print 'b' }",
	"BEGIN { for (q in match (1) { z => { @ } }) { } print 'b' }",
	"function f() { while (1) { for (q in [1]) { @ } } }\n{ f(); print 'b' }",
	"function f() { x = match (1) { z => { @ } }\nreturn x }\nBEGIN { while (1) { f(); break } print 'b' }",
	"BEGIN { while (1) { x = match (1) { z => { for (q in [1]) { @ } } }\nbreak } print 'b' }",
	"{ print [1, match (1) { z => { @ } }], 'b' }",
	"{ a.push(match (1) { z => { @ } }) }",
	"{ printf('%v', match (1) { z => { @ } }) }",
}

var c01SelectorCtx = []string{
	"match (1) { z => { @ } }",
	"[match (1) { z => { @ } }]",
	"match (1) { z => { while (1) { @ } } }",
	"match (1) { z => { n = 0; while (match (1) { y => { @ } }) { n++; if (n > 1) break } } }",
	"match ($) { z => { for (q in $) { @ } } }",
}

// VHC01Placements: next/exit/return/break/continue in every rule kind, pattern,
// function body, match body, loop header slot and selector: the outcome is success or
// one of the three error kinds, never a crash or an internal signal.
func VHC01Placements() {
	j := c01Jumps[vh.Choose("jump", len(c01Jumps))]
	doc := []any{map[string]any{"p": vh.Bool("p")}, map[string]any{"p": true}}
	if vh.Choose("where", 2) == 0 {
		ctx := c01Contexts[vh.Choose("ctx", len(c01Contexts))]
		prog := strings.ReplaceAll(ctx, "@", j)
		var out vh.Out
		_, err := lang.EvalProgram(prog, []lang.InputFile{{Name: "f", Reader: &vh.DocStream{Items: []any{doc}}}}, nil, &out, false)
		legal(err, "EvalProgram(`"+lbl(prog)+"`)")
	} else {
		ctx := c01SelectorCtx[vh.Choose("sctx", len(c01SelectorCtx))]
		sel := strings.ReplaceAll(ctx, "@", j)
		var out vh.Out
		_, err := lang.EvalProgram("{ print 'r' }\nEND { print 'e' }", []lang.InputFile{{Name: "f", Reader: &vh.DocStream{Items: []any{doc}}}}, []string{sel}, &out, false)
		legal(err, "EvalProgram(selector `"+lbl(sel)+"`)")
		cell, err2 := lang.EvalExpression(sel, doc, &out)
		_ = cell
		legal(err2, "EvalExpression(`"+lbl(sel)+"`)")
	}
	vh.Reach("placement evaluated")
}

// VHC01Bytes: the whole pipeline on a fully symbolic program text / selector text of N
// bytes: every byte sequence ends in success or one of the three error kinds.
func VHC01Bytes() {
	max := 3
	if vh.Thorough() {
		max = 4
	}
	n := vh.Choose("n", max+1)
	text := vh.Bytes("t", n)
	doc := []any{map[string]any{"a": 1.0}, map[string]any{"a": nil}}
	var out vh.Out
	if vh.Choose("as", 2) == 0 {
		_, err := lang.EvalProgram(text, []lang.InputFile{{Name: "<test>", Reader: &vh.DocStream{Items: []any{doc}}}}, nil, &out, true)
		legal(err, "EvalProgram(symbolic text)")
	} else {
		_, err := lang.EvalProgram("{ print 1 }", []lang.InputFile{{Name: "<test>", Reader: &vh.DocStream{Items: []any{doc}}}}, []string{text}, &out, true)
		legal(err, "EvalProgram(symbolic selector)")
	}
	vh.Reach("text evaluated")
}

// seeds for near-grammatical texts: a template with one or two symbolic bytes spliced in
var c01Near = []string{
	"BEGIN { x = 1 ?? 2 }", "{ print $.a?? }", "function f(??) { return 1 } { f() }", "{ a = [1, 2]; print a[??] }",
	"{ x = match ($.a) { ?? => 1 } }", "{ printf('%??s', 'x') }", "$.a ?? 1 { print }", "{ for (k ?? $) { print k } }",
	"{ print 'a??b' }", "{ x = 1??2 }", "{ o = {k??: 1} }", "BEGIN { print /a??b/ }", "{ print $??index }",
	// the bytes inside quoted text in every place quoted text can stand
	"{ o = {'k??': 1, \"j\": 2}; print o }", "{ o = {\"??\": $.a}; print o }", "{ print {a: 1}['??'], $['??'] }", "{ x = match ('a') { '??' => 1, z => 2 } }",
	"{ print '??'.length(), \"??\".upper() }", "{ printf('??', 1) }", "{ x = 'a' ~ '??' }", "{ for (k, v in {'??': 1}) print k }", "{ o.k = 1; print o['??'] }",
}

// VHC01NearGrammar: grammatical templates with two fully symbolic bytes spliced in.
func VHC01NearGrammar() {
	t := c01Near[vh.Choose("tmpl", len(c01Near))]
	b := vh.Bytes("b", 2)
	prog := strings.Replace(t, "??", b, 1)
	doc := []any{map[string]any{"a": 1.0}, map[string]any{"a": nil}}
	var out vh.Out
	_, err := lang.EvalProgram(prog, []lang.InputFile{{Name: "<test>", Reader: &vh.DocStream{Items: []any{doc}}}}, nil, &out, true)
	legal(err, "EvalProgram(near-grammatical text)")
	vh.Reach("near-grammatical text evaluated")
}

var c01CliProgs = []string{
	"BEGIN {", "BEGIN { print 1 +", "", "BEGIN { x = }", "BEGIN { print 1/0 }", "{ print $.a.b.c() }", "BEGIN { print 'abc }",
	"\u00e9@", "BEGIN { print 1 }\n\n}", "BEGIN { print 1 }", "{ print $nosuch }", "function f( {", "BEGIN { x = /ab }", "#",
	"BEGIN { exit }", "{ exit }", "BEGINFILE { exit }", "{ next }",
}

var c01CliSels = []string{"$", "", "$.(", "$.a(", "1/0", " ", "$nosuch", "'", "$.k["}

// VHC01Cli: the command-line tool reports every failure as a diagnostic on standard
// error and a non-zero status - it never ends in a Go panic, whatever the error's
// position (end of input, empty text, selector text, -f file) and kind.
func VHC01Cli() {
	prog := c01CliProgs[vh.Choose("prog", len(c01CliProgs))]
	tail := vh.ByteFrom("tail", "\n ;}x")
	if tail != 'x' {
		prog += string([]byte{tail})
	}
	p := &vh.Proc{Texts: map[string]string{}, Data: map[string]*vh.DocStream{}}
	var args []string
	if si := vh.Choose("sel", len(c01CliSels)+1); si > 0 {
		args = append(args, "-r", c01CliSels[si-1])
	}
	if vh.Choose("progsrc", 2) == 1 {
		p.Texts["p.jqawk"] = prog
		args = append(args, "-f", "p.jqawk")
	} else {
		args = append(args, prog)
	}
	// -o: nothing, standard output, a file (after the selectors, before the program)
	switch vh.Choose("omode", 3) {
	case 1:
		args = append([]string{"-o", "-"}, args...)
	case 2:
		args = append([]string{"-o", "out.json"}, args...)
	}
	switch vh.Choose("input", 6) {
	case 4: // an input file without a single value in it
		p.Data["in.json"] = &vh.DocStream{Items: []any{}}
		args = append(args, "in.json")
	case 5: // nothing on standard input
		p.Stdin = &vh.DocStream{Items: []any{}}
	case 0:
		p.Data["in.json"] = &vh.DocStream{Items: []any{map[string]any{"a": 1.0, "k": []any{1.0}}}}
		args = append(args, "in.json")
	case 1:
		p.Data["in.json"] = &vh.DocStream{Items: []any{vh.Fault{Kind: vh.Garbage, Text: "@@"}}}
		args = append(args, "in.json")
	case 2:
		args = append(args, "missing.json")
	case 3:
		p.Stdin = &vh.DocStream{Items: []any{[]any{1.0, "x"}}}
	}
	p.Args = args
	res := vh.RunCLI(cli.Run, p)
	vh.Reach("front end returned")
	vh.Assert(res.Exit == 0 || res.Stderr != "", "C01: a failing run of the tool prints a diagnostic")
	vh.Assert(vh.Or(res.Exit == 0, res.Exit == 1) || res.Exit == 2, "C01: the tool ends with an ordinary exit status")
}

// VHC01StringIndex: indexing, iterating and measuring a string of arbitrary bytes
// (ASCII, multi-byte, invalid UTF-8) with an arbitrary numeric index never crashes.
func VHC01StringIndex() {
	n := 1 + vh.Choose("n", 2)
	if vh.Thorough() {
		n = 1 + vh.Choose("n3", 3)
	}
	// bytes from a table: ASCII, the pieces of two multi-byte characters, a byte that is
	// never valid UTF-8 (single bytes are turned into strings by the code under test, which
	// the engine can only do per concrete value)
	bs := make([]byte, n)
	for j := range bs {
		bs[j] = vh.ByteFrom("s"+itoa(j), "a \xc3\xa9\xe6\x97\xa5\xff")
	}
	s := string(bs)
	i := vh.FloatFrom("i", []float64{-7, -1, 0, 1, 2, 3, 4, 1.5})
	doc := map[string]any{"s": s, "i": i}
	form := vh.Choose("form", 6)
	if form == 5 {
		out, kp := runProg("{ for (c, o in $.s) { n = n + 1; last = o } print n <= $.s.length(), last < $.s.length() }", doc)
		vh.Reach("string indexed")
		vh.Assert(kp == OK && out == "true true\n", "C01: iterating a string of arbitrary bytes visits at most length() positions, all inside the string")
		return
	}
	src := []string{
		"$.s[$.i]",
		"$.s[$.s.length() - 1]",
		"$.s[$.s.length()]",
		"[$.s[0], $.s[1], $.s[2], $.s[3]]",
		"$.s.split('')[$.i]",
	}[form]
	cell, k, _ := evalExpr(src, doc)
	vh.Reach("string indexed")
	vh.Assert(k == OK || k == ErrRuntime, "C01: indexing a string ends in a value or a runtime error")
	if form == 1 && k == OK {
		vh.Assert(isStr(cell), "C01: the last byte position of a non-empty string holds a string")
	}
}
