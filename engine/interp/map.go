// Copyright 2013 The Go Authors. All rights reserved.
// Use of this source code is governed by a BSD-style
// license that can be found in the LICENSE file.

package interp

// Custom hashtable atop map.
// For use when the key's equivalence relation is not consistent with ==.

// The Go specification doesn't address the atomicity of map operations.
// The FAQ states that an implementation is permitted to crash on
// concurrent map access.

import (
	"go/types"
)

type hashable interface {
	hash(t types.Type) int
	eq(t types.Type, x interface{}) bool
}

type entry struct {
	key   hashable
	value value
	next  *entry
}

// A hashtable atop the built-in map.  Since each bucket contains
// exactly one hash value, there's no need to perform hash-equality
// tests when walking the linked list.  Rehashing is done by the
// underlying map.
type hashmap struct {
	keyType types.Type
	table   map[int]*entry
	length  int // number of entries in map
}

// makeMap returns an empty initialized map of key type kt,
// preallocating space for reserve elements.
func makeMap(kt types.Type, reserve int64) value {
	if usesBuiltinMap(kt) {
		return make(map[value]value, reserve)
	}
	return &hashmap{keyType: kt, table: make(map[int]*entry, reserve)}
}

// delete removes the association for key k, if any.
func (m *hashmap) delete(k hashable) {
	if m != nil {
		hash := k.hash(m.keyType)
		head := m.table[hash]
		if head != nil {
			if k.eq(m.keyType, head.key) {
				m.table[hash] = head.next
				m.length--
				return
			}
			prev := head
			for e := head.next; e != nil; e = e.next {
				if k.eq(m.keyType, e.key) {
					prev.next = e.next
					m.length--
					return
				}
				prev = e
			}
		}
	}
}

// lookup returns the value associated with key k, if present, or
// value(nil) otherwise.
func (m *hashmap) lookup(k hashable) value {
	if m != nil {
		hash := k.hash(m.keyType)
		for e := m.table[hash]; e != nil; e = e.next {
			if k.eq(m.keyType, e.key) {
				return e.value
			}
		}
	}
	return nil
}

// insert updates the map to associate key k with value v.  If there
// was already an association for an eq() (though not necessarily ==)
// k, the previous key remains in the map and its associated value is
// updated.
func (m *hashmap) insert(k hashable, v value) {
	hash := k.hash(m.keyType)
	head := m.table[hash]
	for e := head; e != nil; e = e.next {
		if k.eq(m.keyType, e.key) {
			e.value = v
			return
		}
	}
	m.table[hash] = &entry{
		key:   k,
		value: v,
		next:  head,
	}
	m.length++
}

// len returns the number of key/value associations in the map.
func (m *hashmap) len() int {
	if m != nil {
		return m.length
	}
	return 0
}

// entries returns a rangeable map of entries.
func (m *hashmap) entries() map[int]*entry {
	if m != nil {
		return m.table
	}
	return nil
}
