package main

import (
	"encoding/json"
	"fmt"
	"os"
	"path/filepath"
	"sort"
	"strconv"
	"strings"
	"time"

	"symgo/interp"
)

type finding struct {
	Property string              `json:"property"`
	ID       string              `json:"id"`
	Status   string              `json:"status"` // "open" or "fixed"
	Harness  string              `json:"harness,omitempty"`
	Label    string              `json:"label,omitempty"`
	Labels   []string            `json:"labels,omitempty"` // any of these
	Choices  map[string][]uint64 `json:"choices,omitempty"`
	What     string              `json:"what"`
	Commit   string              `json:"commit,omitempty"`
}

func readFindings() []finding {
	b, err := os.ReadFile(filepath.Join(verifDir(), "known_findings.json"))
	if err != nil {
		return nil
	}
	var doc struct {
		Findings []finding `json:"findings"`
	}
	if err := json.Unmarshal(b, &doc); err != nil {
		fatal("known_findings.json: %v", err)
	}
	return doc.Findings
}

// matches reports whether an open finding covers this confirmed violation. A fixed
// entry suppresses nothing.
func (f finding) matches(prop, harness string, labels []string, choices map[string]uint64) bool {
	if f.Status != "open" || f.Property != prop {
		return false
	}
	if f.Harness != "" && f.Harness != harness {
		return false
	}
	if f.Label != "" || len(f.Labels) > 0 {
		ok := false
		for _, l := range labels {
			if l == f.Label && f.Label != "" {
				ok = true
			}
			for _, fl := range f.Labels {
				if l == fl {
					ok = true
				}
			}
		}
		if !ok {
			return false
		}
	}
	for k, allowed := range f.Choices {
		v, present := choices[k]
		if !present {
			return false
		}
		ok := false
		for _, a := range allowed {
			if a == v {
				ok = true
			}
		}
		if !ok {
			return false
		}
	}
	return true
}

type harnessEvidence struct {
	Fn              string         `json:"harness"`
	What            string         `json:"what,omitempty"`
	Bounds          string         `json:"bounds,omitempty"`
	Paths           int            `json:"paths"`
	PathsNontrivial int            `json:"paths_nontrivial"`
	Instrs          int64          `json:"ssa_instructions"`
	Decisions       int64          `json:"symbolic_decisions"`
	Obligations     int            `json:"obligations"`
	DischargedSyn   int            `json:"discharged_syntactic"`
	DischargedSolv  int            `json:"discharged_solver"`
	Inconclusive    int            `json:"inconclusive_obligations"`
	Queries         map[string]int `json:"queries"`
	QueriesBy       map[string]int `json:"queries_by_solver"`
	SolverS         float64        `json:"solver_s"`
	WallS           float64        `json:"wall_s"`
	Abandoned       map[string]int `json:"paths_abandoned"`
	AssumePruned    int            `json:"paths_pruned_by_assume"`
	Truncated       bool           `json:"truncated"`
	Reach           map[string]int `json:"reach"`
	Vacuous         []string       `json:"vacuous_labels"`
	Candidates      map[string]int `json:"candidate_violations"`
	Confirmed       int            `json:"confirmed_violations"`
	Unconfirmed     int            `json:"unconfirmed_models"`
	WitnessOK       int            `json:"abandoned_paths_witnessed_natively_ok,omitempty"`
	Known           int            `json:"known_findings_hit"`
	Conformance     int            `json:"conformance_replays_ok"`
	ConformanceBad  int            `json:"conformance_replays_mismatch"`
	Skipped         string         `json:"skipped,omitempty"`
	Filtered        int            `json:"candidates_of_other_properties_ignored,omitempty"`
	Intercepted     int            `json:"summarised_calls,omitempty"`
	Notes           []string       `json:"notes,omitempty"`
	samples         []any
	funcs           map[string]bool
	choicesOfViol   []map[string]uint64
}

func runProperty(prop, tier string) int {
	t0 := time.Now()
	reg := readRegistry()
	pc, ok := reg[prop]
	if !ok {
		fatal("property %s is not registered (see MANIFEST.json not_applicable)", prop)
	}
	thorough := tier == "thorough"
	replayThorough = thorough
	seed := 0
	if s := os.Getenv("VERIF_SEED"); s != "" {
		seed, _ = strconv.Atoi(s)
	}
	l, err := load(nil)
	if err != nil {
		fatal("loading /repo with harness overlays failed (this is a machinery/build problem, not a verdict):\n%v", err)
	}
	findings := readFindings()
	base := l
	var lin *loaded // program with the in-package harnesses, loaded on demand
	var linErr error
	var rbBase, rbIn *replayBuild
	getRB := func() *replayBuild {
		p := &rbBase
		if l.inpkg {
			p = &rbIn
		}
		if *p == nil {
			var err error
			*p, err = buildReplay(l)
			if err != nil {
				fatal("building the native replay binary failed: %v", err)
			}
		}
		return *p
	}
	defer func() { rbBase.cleanup(); rbIn.cleanup() }()

	os.MkdirAll(filepath.Join(verifDir(), "replays"), 0o755)
	var hev []*harnessEvidence
	violations := 0
	knownPrinted := map[string]bool{}
	nviolFiles := 0
	allFuncs := map[string]bool{}
	var samples []any

	for _, h := range pc.Harnesses {
		ev := &harnessEvidence{Fn: h.Fn, What: h.What, Bounds: h.Bounds, Abandoned: map[string]int{}, Candidates: map[string]int{}}
		hev = append(hev, ev)
		l = base
		if h.Inpkg {
			if lin == nil && linErr == nil {
				lin, linErr = loadInpkg()
			}
			if linErr != nil {
				ev.Skipped = "in-package anchor missing, harness skipped: " + firstLine(linErr.Error())
				fmt.Printf("SKIPPED %s: %s\n", h.Fn, linErr.Error())
				continue
			}
			l = lin
		}
		found := false
		for _, n := range l.fnNames {
			if n == h.Fn {
				found = true
			}
		}
		if !found {
			ev.Skipped = "harness not loaded"
			fmt.Printf("SKIPPED %s: %s\n", h.Fn, ev.Skipped)
			continue
		}
		t := h.Quick
		if thorough {
			t = h.Thorough
			if t.Paths == 0 {
				t = h.Quick
			}
		}
		cfg := mkConfig(l, h, t, thorough)
		cfg.SampleEvery = 97 + seed%7
		t1 := time.Now()
		st := interp.Explore(cfg)
		wall := time.Since(t1)
		ev.Paths, ev.PathsNontrivial, ev.Instrs, ev.Decisions = st.Paths, st.PathsNontrivial, st.Instrs, st.Decisions
		ev.Obligations, ev.DischargedSyn, ev.DischargedSolv, ev.Inconclusive = st.Obligations, st.DischargedSyn, st.DischargedSolv, st.Inconclusive
		ev.Queries, ev.QueriesBy, ev.SolverS, ev.WallS = st.Queries, st.QueriesBy, st.SolverDur.Seconds(), wall.Seconds()
		ev.AssumePruned, ev.Truncated, ev.Reach, ev.Intercepted = st.AssumePruned, st.Truncated, st.Reach, st.Intercepted
		for k, v := range st.Unsup {
			ev.Abandoned[k] = v
		}
		for k, v := range st.ViolCount {
			ev.Candidates[k] = v
		}
		for _, r := range h.Reach {
			if st.Reach[r] == 0 {
				ev.Vacuous = append(ev.Vacuous, r)
			}
		}
		for f := range st.Funcs {
			allFuncs[f] = true
		}
		fmt.Printf("%s: paths=%d obligations=%d (syntactic %d, solver %d, inconclusive %d) candidates=%d wall=%.1fs solver=%.1fs%s\n",
			h.Fn, st.Paths, st.Obligations, st.DischargedSyn, st.DischargedSolv, st.Inconclusive, len(st.Viol), wall.Seconds(), st.SolverDur.Seconds(), trunc(st.Truncated))
		if len(ev.Vacuous) > 0 {
			fmt.Printf("  INCONCLUSIVE: labels never reached (vacuity guard): %v\n", ev.Vacuous)
		}

		// candidate violations: replay natively; only what reproduces counts
		perHarness := 0
		for _, v := range st.Viol {
			if len(h.Only) > 0 && v.Kind == "assert" {
				keep := false
				for _, pre := range h.Only {
					if strings.HasPrefix(v.Label, pre) {
						keep = true
					}
				}
				if !keep {
					ev.Filtered++
					continue
				}
			}
			res := getRB().run(h.Fn, v.Model, 120*time.Second)
			confirmed := false
			var labels []string
			switch v.Kind {
			case "budget":
				// the engine ran out of steps: what does the real build do?
				switch {
				case res.Timeout:
					confirmed, labels = true, []string{"does not terminate natively (wall-clock cap)"}
				case res.Panic != "":
					confirmed, labels = true, []string{"crashes natively: " + res.Panic}
				case len(res.Failed) > 0:
					confirmed, labels = true, res.Failed
				}
			case "assert":
				confirmed = len(res.Failed) > 0
				labels = res.Failed
			case "unsupported":
				// a path the engine abandoned: one concrete input down that path, run on
				// the real build; a failure there is a violation found by the witness
				var failed []string
				for _, f := range res.Failed {
					keep := len(h.Only) == 0
					for _, pre := range h.Only {
						if strings.HasPrefix(f, pre) {
							keep = true
						}
					}
					if keep {
						failed = append(failed, f)
					}
				}
				switch {
				case res.Panic != "":
					confirmed, labels = true, []string{"crashes natively: " + res.Panic}
				case len(failed) > 0:
					confirmed, labels = true, failed
				default:
					ev.WitnessOK++
					continue
				}
			case "panic":
				// only a crash that shows natively counts (a native run that merely took long
				// on a loaded machine confirms nothing)
				confirmed = res.Panic != ""
				labels = []string{"panic"}
				if len(res.Failed) > 0 { // path reached an assertion failure instead
					confirmed = true
					labels = res.Failed
				}
			}
			if !confirmed {
				ev.Unconfirmed++
				ev.Notes = append(ev.Notes, fmt.Sprintf("unconfirmed model for %s:%s (native: %s)", v.Kind, v.Label, res.summary()))
				continue
			}
			ev.Confirmed++
			matched := false
			for _, f := range findings {
				if f.matches(prop, h.Fn, labels, v.Choices) {
					matched = true
					ev.Known++
					if !knownPrinted[f.ID] {
						knownPrinted[f.ID] = true
						fmt.Printf("KNOWN-FINDING: property=%s %s [%s]\n", prop, f.What, f.ID)
					}
					break
				}
			}
			if matched {
				continue
			}
			violations++
			perHarness++
			if perHarness > 6 {
				continue // confirmed and counted; only the first few get a replay file and a line
			}
			nviolFiles++
			path := filepath.Join(verifDir(), "replays", fmt.Sprintf("%s-%s-%d.json", prop, h.Fn, nviolFiles))
			writeReplayFile(path, h.Fn, v.Model, map[string]any{
				"property": prop, "kind": v.Kind, "label": v.Label, "choices": v.Choices, "native": res, "detail": v.Detail,
			})
			fmt.Printf("VIOLATION property=%s replay=%s\n", prop, path)
			fmt.Printf("  %s %q choices=%v native: %s\n", v.Kind, v.Label, v.Choices, res.summary())
			samples = append(samples, map[string]any{"violation": v.Label, "kind": v.Kind, "choices": v.Choices, "model": v.Model})
		}

		if perHarness > 6 {
			fmt.Printf("  ... and %d more confirmed violations in %s (see evidence)\n", perHarness-6, h.Fn)
		}
		// conformance: replay a sample of passing paths natively
		nconf := 6
		if thorough {
			nconf = 20
		}
		for i, s := range st.Samples {
			if i >= nconf {
				break
			}
			res := getRB().run(h.Fn, s.Model, 120*time.Second)
			want := s.Out
			got := strings.Join(res.Observed, "\n")
			if res.Exit == 0 && got == want {
				ev.Conformance++
			} else {
				ev.ConformanceBad++
				ev.Notes = append(ev.Notes, fmt.Sprintf("conformance mismatch on path %d: native %s; observed %q want %q", s.Path, res.summary(), got, want))
			}
			if i < 3 {
				samples = append(samples, map[string]any{"harness": h.Fn, "path": s.Path, "choices": s.Choices, "decisions": s.Decision, "path_condition_terms": s.PCSize, "model": trimModel(s.Model), "observed": s.Out, "native_replay": res.summary()})
			}
		}
		if ev.ConformanceBad > 0 {
			fmt.Printf("  NOTE: %d conformance replays disagreed with the engine's prediction (engine/stub defect; recorded, not a verdict)\n", ev.ConformanceBad)
		}
	}

	writeEvidence(prop, tier, seed, pc, hev, allFuncs, samples, violations, time.Since(t0))
	if violations > 0 {
		return 1
	}
	return 0
}

func firstLine(s string) string {
	if i := strings.IndexByte(s, '\n'); i >= 0 {
		return s[:i]
	}
	return s
}

func trunc(b bool) string {
	if b {
		return " TRUNCATED(budget)"
	}
	return ""
}

func trimModel(m map[string]uint64) map[string]uint64 {
	if len(m) <= 24 {
		return m
	}
	keys := make([]string, 0, len(m))
	for k := range m {
		keys = append(keys, k)
	}
	sort.Strings(keys)
	out := map[string]uint64{}
	for _, k := range keys[:24] {
		out[k] = m[k]
	}
	return out
}

func writeEvidence(prop, tier string, seed int, pc propCfg, hev []*harnessEvidence, funcs map[string]bool, samples []any, violations int, wall time.Duration) {
	var paths, nontriv, obl, dis, confOK int
	var instrs, decisions int64
	var fl []string
	for f := range funcs {
		if strings.Contains(f, "jqawk/src") || strings.Contains(f, "jqawk/cli") {
			fl = append(fl, f)
		}
	}
	sort.Strings(fl)
	var solverS float64
	queries := map[string]int{}
	for _, h := range hev {
		paths += h.Paths
		nontriv += h.PathsNontrivial
		instrs += h.Instrs
		decisions += h.Decisions
		obl += h.Obligations
		dis += h.DischargedSyn + h.DischargedSolv
		confOK += h.Conformance
		solverS += h.SolverS
		for k, v := range h.Queries {
			queries[k] += v
		}
	}
	if len(samples) == 0 {
		samples = append(samples, map[string]any{"note": "no path sample captured (fewer paths than the sampling stride)"})
	}
	if instrs == 0 {
		instrs = 1
	}
	if decisions == 0 {
		decisions = 1
	}
	cov := map[string]any{
		"states":                        instrs,
		"transitions":                   decisions,
		"traces_validated_against_impl": confOK,
		"samples":                       samples,
		"evaluations":                   paths,
		"distinct_nontrivial":           nontriv,
		"rule":                          "one evaluation = one explored path of a harness (a path stands for all inputs satisfying its path condition); a path is counted non-trivial when at least one branch on it was decided by the solver or a final obligation was discharged by the solver; paths are distinct by construction (disjoint path conditions). states = SSA instructions executed, transitions = symbolic decisions taken.",
		"obligations":                   obl,
		"discharged":                    dis,
		"functions_encoded":             fl,
		"queries":                       queries,
		"solver_s":                      solverS,
		"harnesses":                     hev,
		"outside_the_claim":             pc.Outside,
		"exhaustive":                    false,
	}
	doc := map[string]any{
		"property_id": prop,
		"tier":        tier,
		"seed":        seed,
		"level":       "model_checking",
		"coverage":    cov,
		"assumptions": pc.Assumptions,
		"wall_s":      wall.Seconds(),
		"violations":  violations,
	}
	b, _ := json.MarshalIndent(doc, "", " ")
	dir := filepath.Join(verifDir(), "evidence")
	os.MkdirAll(dir, 0o755)
	if err := os.WriteFile(filepath.Join(dir, prop+".json"), b, 0o644); err != nil {
		fatal("writing evidence: %v", err)
	}
}
