package ext

import (
	"math"
	"strings"

	lang "github.com/alligator/jqawk/src"
	"github.com/alligator/jqawk/zzverif/vh"
)

// C11 runtime part: templates `print 'before'; C[F]; print 'after'` where C ranges over
// the syntactic slots an expression / statement can sit in and F is a fault with a
// trigger in the document. '@' is replaced by the fault expression.
var c11Slots = []string{
	"{ print 'before'; x = @; print 'after' }",
	"{ print 'before' }\n@ { print 'body' }\n{ print 'after' }",
	"{ print 'before'; x = (@) + 1; print 'after' }",
	"{ print 'before'; x = 1 + (@); print 'after' }",
	"{ print 'before'; x = (@) < 1; print 'after' }",
	"{ print 'before'; x = 1 && (@); print 'after' }",
	"{ print 'before'; x = 0 || (@); print 'after' }",
	"{ print 'before'; x = -(@); print 'after' }",
	"{ print 'before'; x = !(@); print 'after' }",
	"function f(a) { return 1 }\n{ print 'before'; x = f(@); print 'after' }",
	"function f(a, b) { return 1 }\n{ print 'before'; x = f(1, @); print 'after' }",
	"function f(a) { return 1 }\n{ print 'before'; x = f(1, @); print 'after' }",
	"function f() { return 1 }\n{ print 'before'; x = f(@); print 'after' }",
	"function f(a) { return 1 }\n{ print 'before'; x = f(1, 2, 3, @, 5); print 'after' }",
	"{ print 'before'; x = [1].contains(@); print 'after' }",
	"{ print 'before'; x = [1, @, 3]; print 'after' }",
	"{ print 'before'; x = {k: 1, j: @}; print 'after' }",
	"{ print 'before'; x = $.arr[@]; print 'after' }",
	"{ print 'before'; x = (@).k; print 'after' }",
	"{ print 'before'; if (@) { print 'then' } print 'after' }",
	"{ print 'before'; n = 0; while (@) { n++; if (n > 1) break } print 'after' }",
	"{ print 'before'; for (i = @; i < 1; i++) { print 'loop' } print 'after' }",
	"{ print 'before'; for (i = 0; @; i++) { if (i > 0) break } print 'after' }",
	"{ print 'before'; for (i = 0; i < 1; i = [i + 1, @][0]) { print 'loop' } print 'after' }",
	"{ print 'before'; for (q in [@]) { print 'loop' } print 'after' }",
	"{ print 'before'; x = match (@) { 1 => 2, z => 3 }\nprint 'after' }",
	"{ print 'before'; x = match (1) { 1 => @ }\nprint 'after' }",
	"{ print 'before'; x = match (1) { 1 => { y = @ } }\nprint 'after' }",
	"function g() { print 'in'; return @ }\n{ print 'before'; x = g(); print 'after' }",
	"function g() { y = @; print 'in' }\n{ print 'before'; x = g(); print 'after' }",
	"{ print 'before'; print @; print 'after' }",
	"{ print 'before'; print 1, @; print 'after' }",
	"{ print 'before'; a = [1]; a[@] = 1; print 'after' }",
	"{ print 'before'; x = 1; x += @; print 'after' }",
	"{ print 'before'; x = (@) ~ 'a'; print 'after' }",
	"{ print 'before'; x = (@) is number; print 'after' }",
	"{ print 'before'; printf('%v', @); print 'after' }",
	"{ print 'before'; x = [[@]][0]; print 'after' }",
	"BEGINFILE { print 'before'; x = @; print 'after' }",
	"{ print 'before' }\nENDFILE { x = @; print 'after' }",
}

// faults: expression text, and for each trigger variant the document.
type c11Fault struct {
	expr string
	bad  map[string]any // document on which the expression fails
	good map[string]any // document on which it evaluates
}

var c11Faults = []c11Fault{
	{"$.f()", map[string]any{"f": 1.0}, nil},
	{"'a' ~ $.re", map[string]any{"re": "("}, map[string]any{"re": "a"}},
	{"$.v < 1", map[string]any{"v": []any{1.0}}, map[string]any{"v": 0.0}},
	{"$.v.k.j", nil, map[string]any{"v": 1.0}},
	{"$nope", map[string]any{}, nil},
	{"[1][0 - $.n]", map[string]any{"n": 5.0}, map[string]any{"n": 1.0}},
	{"num(1, 2)", map[string]any{}, nil},
	{"'x'.split($.n)", map[string]any{"n": 5.0}, map[string]any{"n": "x"}},
	{"json($.j)", nil, map[string]any{"j": 1.0}},
	// one trigger per place the evaluator, the value model and the builtins raise an error
	{"$.v == $.v", map[string]any{"v": []any{1.0}}, map[string]any{"v": 1.0}},
	{"$.v != $.v", map[string]any{"v": map[string]any{}}, map[string]any{"v": "s"}},
	{"$.v <= $.w", map[string]any{"v": []any{1.0}, "w": []any{1.0}}, map[string]any{"v": 1.0, "w": 2.0}},
	{"$ == $", map[string]any{}, nil},
	{"7 % $.n", map[string]any{"n": 0.0}, map[string]any{"n": 2.0}},
	{`'a\q'`, map[string]any{}, nil},
	{"'a' ~ $.n", map[string]any{"n": 5.0}, map[string]any{"n": "a"}},
	{"($.v.k = 1)", map[string]any{"v": 1.0}, map[string]any{"v": map[string]any{}}},
	{"$[$.b]", map[string]any{"b": true}, map[string]any{"b": "k"}},
	{"[$.v].contains(1)", map[string]any{"v": []any{1.0}}, map[string]any{"v": 1.0}},
	{"num()", map[string]any{}, nil},
	{"[1].push()", map[string]any{}, nil},
	{"[1].nosuch()", map[string]any{}, nil},
	{"($.arr[$.n] = 1)", map[string]any{"n": 2000000.0}, map[string]any{"n": 3.0}},
	{"($.arr[$.s] = 1)", map[string]any{"s": "k"}, map[string]any{"s": 0.0}},
	{"printf('%q', 1)", map[string]any{}, nil},
	{"printf('%s')", map[string]any{}, nil},
}

func lbl(s string) string { return strings.ReplaceAll(s, "\n", " / ") }

// c11Stopped: the output of a run stopped by the fault: what was printed before is
// kept ('before', possibly 'in' / 'loop' from an enclosing body that ran first),
// nothing that comes after the fault.
func c11Stopped(out string) bool {
	return strings.HasPrefix(out, "before\n") && !strings.Contains(out, "after") && !strings.Contains(out, "body") && !strings.Contains(out, "then")
}

func c11Doc(m map[string]any) map[string]any {
	d := map[string]any{"arr": []any{1.0, 2.0}}
	for k, v := range m {
		d[k] = v
	}
	return d
}

// expected output of the non-failing run: 'before' ... 'after' in this order.
func c11HasBeforeAfter(out string) bool {
	b := strings.Index(out, "before\n")
	a := strings.LastIndex(out, "after\n")
	return b == 0 && a > b
}

// VHC11DivFault: the fault `1/$.z` fires iff z == 0 (symbolic divisor), in every slot.
func VHC11DivFault() {
	slot := c11Slots[vh.Choose("slot", len(c11Slots))]
	// the divisor comes from a small table (that / fails exactly for a zero divisor, for
	// every double, is C05's); what is decided here is what the fault does to the run
	z := vh.FloatFrom("z", []float64{0, math.Copysign(0, -1), 1, 2.5, 4, 0.5, 0.25})
	opi := vh.Choose("op", 2)
	prog := strings.ReplaceAll(slot, "@", []string{"1/$.z", "7 % $.z"}[opi])
	out, k := runProg(prog, c11Doc(map[string]any{"z": z}))
	// / fails for a zero divisor; % works on the integer parts, so it fails when the
	// divisor's integer part is zero - as a runtime error, never as a crash
	if z == 0 || (opi == 1 && z > -1 && z < 1) {
		vh.Reach("fault fired")
		vh.Assert(k == ErrRuntime, "C11: a failing operation stops the run with a runtime error, whatever slot it sits in: "+lbl(slot))
		vh.Assert(c11Stopped(out), "C11: output before the fault is kept, nothing is printed after it: "+lbl(slot))
	} else {
		vh.Reach("no fault")
		vh.Assert(k == OK, "C11: without the fault the program completes: "+lbl(slot))
		vh.Assert(c11HasBeforeAfter(out), "C11: without the fault the statements after it run: "+lbl(slot))
	}
}

// VHC11Faults: the other fault kinds x every slot (trigger = which document).
func VHC11Faults() {
	slot := c11Slots[vh.Choose("slot", len(c11Slots))]
	f := c11Faults[vh.Choose("fault", len(c11Faults))]
	prog := strings.ReplaceAll(slot, "@", f.expr)
	if vh.Choose("trigger", 2) == 1 {
		if f.bad == nil {
			return
		}
		out, k := runProg(prog, c11Doc(f.bad))
		vh.Reach("fault fired")
		vh.Assert(k == ErrRuntime, "C11: `"+f.expr+"` must stop the run with a runtime error in: "+lbl(slot))
		vh.Assert(c11Stopped(out), "C11: output before `"+f.expr+"` fails is kept, nothing after it: "+lbl(slot))
	} else {
		if f.good == nil {
			return
		}
		out, k := runProg(prog, c11Doc(f.good))
		vh.Reach("no fault")
		vh.Assert(k == OK || k == ErrRuntime, "C11: legal outcome")
		if k == OK {
			vh.Assert(c11HasBeforeAfter(out), "C11: without the fault the statements after it run: "+lbl(slot))
		}
	}
}

var c11Statements = []string{
	"x = 5; x.y++",
	"x = 5; x.y--",
	"x = 5; ++x.y",
	"x = 5; x.y = 1",
	"x = 5; x.y += 1",
	"x = 1; x /= 0",
	"x = [1]; x += [1] < 2",
	"x = [1]; y = x == x",
	// faults whose position is that of a keyword literal
	"x = 'a' ~ null",
	"null.seen = 1",
	"x = true()",
	"x = match ([1]) { true => 1, false => 2 }",
	"x = [1] < false",
	"for (q in 5) { print 'loop' }",
	"for (q in null) { print 'loop' }",
	"printf('%s', 5)",
	"printf('%d', 5)",
	"printf('%s')",
	"a = [1]; a[0 - 5] = 1",
	"a = [1]; a['k'] = 1",
	"o = {}; o[[1]] = 1",
	"x = [1] == [1]",
	"x = 1 ~ 2",
	"s = 'abc\\q'; print s",
	"f = 5; f()",
	"y = nosuch()",
	"z = [1].nosuch()",
	"a = [1]; a.push()",
	"a = [1]; a.contains()",
	"x = match ([[1], 2]) { [1, q] => 0, y => 1 }",
	"x = match ([1]) { [1 + 2] => 0, y => 1 }",
	"x = match (['a']) { ['\\q'] => 0, y => 1 }",
	"x = match ([1, [2]]) { [1, 2] => 0, [1, z] => 1 }",
	"x = match ({k: 1}) { 1 => 0, y => 1 }",
	"x = match (1) { nosuchfn() => 0, y => 1 }",
}

// VHC11Statements: statements that fail as a whole (store on a scalar, also inside
// ++/--; iterating a non-iterable; bad printf arguments; ...) stop the run there.
func VHC11Statements() {
	st := c11Statements[vh.Choose("stmt", len(c11Statements))]
	ctx := vh.Choose("ctx", 4)
	var prog string
	switch ctx {
	case 0:
		prog = "BEGIN { print 'before'\n" + st + "\nprint 'after' }"
	case 1:
		prog = "BEGIN { print 'before'; if (1) { " + st + " } print 'after' }"
	case 2:
		prog = "function g() { " + st + "\nprint 'in' }\nBEGIN { print 'before'; g(); print 'after' }"
	case 3:
		prog = "BEGIN { print 'before'; n = 0; while (n < 1) { n++; " + st + "\nprint 'in' } print 'after' }\nEND { print 'end' }"
	}
	out, k := runProg(prog)
	vh.Reach("statement evaluated")
	vh.Assert(k == ErrRuntime, "C11: `"+st+"` must stop the run with a runtime error")
	vh.Assert(out == "before\n", "C11: nothing is printed after `"+st+"` fails")
}

var c11SyntaxFaults = []string{
	"BEGIN { x = }", "BEGIN { x = 1 ", "BEGIN { print 1 2 }", "BEGIN { @ }", "BEGIN { return 1 }", "BEGIN { break }",
	"BEGIN { continue }", "BEGIN { 1 = 2 }", "BEGIN { [1] = 2 }", "BEGIN { x + y = 2 }", "BEGIN { 'abc }", "function { }",
	"function f( { }", "BEGIN { if x { } }", "BEGIN { for (;;) { } }", "BEGIN { x = match (1) { 1 } }", "BEGIN { x = {k 1} }",
	"BEGIN { x = [1, }", "BEGIN { while (1) { break } break }", "function f() { return 1 }\nBEGIN { return 2 }", "BEGIN { x = /abc }", "}",
}

// VHC11Syntax: a syntax error anywhere pre-empts all execution: no output at all,
// however much valid program precedes it.
func VHC11Syntax() {
	f := c11SyntaxFaults[vh.Choose("fault", len(c11SyntaxFaults))]
	nvalid := vh.Choose("valid", 3)
	prog := ""
	for i := 0; i < nvalid; i++ {
		prog += "BEGIN { print 'valid" + itoa(i) + "' }\n"
	}
	where := vh.Choose("where", 2)
	if where == 0 {
		prog += f + "\nEND { print 'end' }"
	} else {
		prog += "END { print 'end' }\n" + f
	}
	var out vh.Out
	_, err := lang.EvalProgram(prog, nil, nil, &out, false)
	k := legal(err, "EvalProgram")
	vh.Reach("syntax fault evaluated")
	vh.Assert(k == ErrSyntax, "C11: `"+lbl(f)+"` is a syntax error")
	vh.Assert(out.String() == "", "C11: a program with a syntax error produces no output at all")
}

var c11Valid = [][]string{
	{"BEGIN", "{", "print", "'a'", ";", "print", "'b'", "}", "END", "{", "print", "'end'", "}"},
	{"function", "f", "(", "a", ",", "b", ")", "{", "return", "a", "+", "b", ";", "}", "BEGIN", "{", "x", "=", "f", "(", "1", ",", "2", ")", ";", "print", "x", ";", "}"},
	{"BEGIN", "{", "for", "(", "i", "=", "0", ";", "i", "<", "2", ";", "i", "++", ")", "{", "print", "i", ";", "}", "if", "(", "i", ")", "{", "print", "[", "1", ",", "2", "]", ";", "}", "else", "{", "print", "{", "k", ":", "1", "}", "}", "}"},
	{"BEGIN", "{", "print", "'s'", ";", "x", "=", "match", "(", "1", ")", "{", "1", "=>", "2", ",", "z", "=>", "3", "}", "while", "(", "x", ">", "0", ")", "{", "x", "--", ";", "}", "print", "x", "}"},
}

// VHC11SyntaxAnywhere: a character no token can begin with, between any two tokens of a
// valid program (with or without blanks around it), is a syntax error and pre-empts all
// execution.
func VHC11SyntaxAnywhere() {
	toks := c11Valid[vh.Choose("prog", len(c11Valid))]
	pos := vh.Choose("pos", 44)
	if pos > len(toks) {
		return
	}
	bad := string([]byte{vh.ByteFrom("bad", "@?^`\\\x00\x7f$#")})
	if bad == "$" || bad == "#" {
		return // `$` is a token and `#` begins a comment: not illegal characters
	}
	glue := []string{" ", ""}[vh.Choose("glue", 2)]
	prog := ""
	for i, t := range toks {
		if i == pos {
			prog += bad + glue
		}
		prog += t + " "
	}
	if pos == len(toks) {
		prog += bad
	}
	var out vh.Out
	_, err := lang.EvalProgram(prog, nil, nil, &out, false)
	k := legal(err, "EvalProgram")
	vh.Reach("illegal character placed")
	vh.Assert(k == ErrSyntax, "C11: an illegal character anywhere in the program is a syntax error")
	vh.Assert(out.String() == "", "C11: a program with an illegal character produces no output at all")
	// the same program without it runs
	clean := ""
	for _, t := range toks {
		clean += t + " "
	}
	var out2 vh.Out
	_, err2 := lang.EvalProgram(clean, nil, nil, &out2, false)
	vh.Assert(legal(err2, "EvalProgram") == OK && out2.Len() > 0, "C11: the program without the illegal character runs and prints")
}
