package interp

// SMT solver processes driven over pipes with SMT-LIB2 text.

import (
	"bufio"
	"os"
	"fmt"
	"io"
	"os/exec"
	"strconv"
	"strings"
	"time"
)

type SolverKind string

const (
	Z3    SolverKind = "z3"
	Z3New SolverKind = "z3-new"
	CVC5  SolverKind = "cvc5"
)

type Solver struct {
	Kind    SolverKind
	cmd     *exec.Cmd
	in      io.WriteCloser
	out     *bufio.Reader
	P       *Printer
	Queries int
	dead    bool
	log     io.Writer
	recent  []string
	lines   chan string // filled by the reader goroutine; closed at EOF
	budget  time.Duration
	closed  bool
}

func NewSolver(kind SolverKind, timeoutMs int) *Solver {
	var cmd *exec.Cmd
	switch kind {
	case Z3, Z3New:
		cmd = exec.Command(string(kind), "-in", fmt.Sprintf("-t:%d", timeoutMs))
	case CVC5:
		cmd = exec.Command("cvc5", "--incremental", "--produce-models", fmt.Sprintf("--tlimit-per=%d", timeoutMs), "--lang=smt2")
	}
	in, _ := cmd.StdinPipe()
	out, _ := cmd.StdoutPipe()
	cmd.Stderr = nil
	if err := cmd.Start(); err != nil {
		panic(err)
	}
	s := &Solver{Kind: kind, cmd: cmd, in: in, out: bufio.NewReaderSize(out, 1<<16), P: NewPrinter(), lines: make(chan string, 1<<16)}
	s.budget = time.Duration(timeoutMs)*time.Millisecond + 5*time.Second
	if dir := os.Getenv("SYMGO_SOLVERLOG"); dir != "" {
		f, _ := os.CreateTemp(dir, string(kind)+"-*.smt2")
		s.log = f
	}
	go func() {
		defer close(s.lines)
		for {
			l, err := s.out.ReadString('\n')
			if err != nil {
				return
			}
			l = strings.TrimSpace(l)
			if l != "" {
				s.lines <- l
			}
		}
	}()
	if kind == CVC5 {
		s.send("(set-logic ALL)")
		s.send("(set-option :global-declarations true)")
	} else {
		s.send("(set-option :global-declarations true)")
	}
	return s
}

func (s *Solver) Close() {
	if s == nil || s.closed {
		return
	}
	s.closed = true
	s.dead = true
	s.in.Close()
	s.cmd.Process.Kill()
	go s.cmd.Wait()
}

func (s *Solver) send(l string) {
	s.recent = append(s.recent, l)
	if len(s.recent) > 40 {
		s.recent = s.recent[len(s.recent)-40:]
	}
	if s.log != nil {
		io.WriteString(s.log, l+"\n")
	}
	if _, err := io.WriteString(s.in, l+"\n"); err != nil {
		s.dead = true
	}
}

// line returns the next non-empty output line. A solver that does not answer within
// its budget (its own timeout plus a margin) is killed: some tactics ignore z3's soft
// timeout.
func (s *Solver) line() (string, bool) {
	if s.dead {
		return "", false
	}
	t := time.NewTimer(s.budget)
	defer t.Stop()
	select {
	case l, ok := <-s.lines:
		if !ok {
			s.dead = true
			return "", false
		}
		return l, true
	case <-t.C:
		s.dead = true
		s.cmd.Process.Kill()
		Watchdog++
		return "", false
	}
}

// Watchdog counts solver processes killed for not answering within their budget.
var Watchdog int

// sexp reads one complete s-expression (possibly spanning lines).
func (s *Solver) sexp() (string, bool) {
	var sb strings.Builder
	depth := 0
	started := false
	for {
		l, ok := s.line()
		if !ok {
			return "", false
		}
		sb.WriteString(l + " ")
		depth += strings.Count(l, "(") - strings.Count(l, ")")
		if strings.Contains(l, "(") {
			started = true
		}
		if started && depth <= 0 {
			return sb.String(), true
		}
		if !started {
			return sb.String(), true
		}
	}
}

func (s *Solver) flush() {
	for _, c := range s.P.Pending {
		s.send(c)
	}
	s.P.Pending = s.P.Pending[:0]
}

func (s *Solver) Push() { s.send("(push 1)") }
func (s *Solver) Pop()  { s.send("(pop 1)") }

func (s *Solver) Assert(t *Term) {
	txt := s.P.Print(t)
	s.flush()
	s.send("(assert " + txt + ")")
}

// Result of a check: "sat", "unsat", "unknown" (incl. timeouts, solver errors, death).
func (s *Solver) Check() (string, time.Duration) {
	t0 := time.Now()
	s.Queries++
	if s.dead {
		return "unknown", 0
	}
	s.send("(check-sat)")
	for {
		l, ok := s.line()
		if !ok {
			return "unknown", time.Since(t0)
		}
		switch {
		case l == "sat" || l == "unsat":
			return l, time.Since(t0)
		case l == "unknown" || l == "timeout":
			return "unknown", time.Since(t0)
		case strings.HasPrefix(l, "(error"):
			// any error makes the query inconclusive; keep reading until the verdict
			// arrives so the stream stays aligned, but report unknown.
			if strings.Contains(l, "interrupted") || strings.Contains(l, "timeout") || strings.Contains(l, "resource") {
				// cvc5 prints (error "...interrupted by timeout") instead of a verdict
				return "unknown", time.Since(t0)
			}
			s.dead = true
			LastSolverError = l + "\n--- recent commands ---\n" + strings.Join(s.recent, "\n")
			return "unknown", time.Since(t0)
		}
	}
}

var LastSolverError string

// Model asks for the values of the given variables after a sat answer.
func (s *Solver) Model(vars []*Term) map[string]uint64 {
	out := map[string]uint64{}
	if len(vars) == 0 || s.dead {
		return out
	}
	names := make([]string, len(vars))
	back := map[string]string{}
	for i, v := range vars {
		names[i] = s.P.Print(v)
		back[names[i]] = v.Name
	}
	s.flush()
	s.send("(get-value (" + strings.Join(names, " ") + "))")
	txt, ok := s.sexp()
	if !ok || strings.HasPrefix(strings.TrimSpace(txt), "(error") {
		return out
	}
	// ((name value) (name value) ...)
	toks := tokenize(txt)
	for i := 0; i+3 < len(toks); i++ {
		if toks[i] == "(" && toks[i+3] == ")" && toks[i+1] != "(" {
			name, val := toks[i+1], toks[i+2]
			if orig, ok := back[name]; ok {
				name = orig
			}
			switch {
			case val == "true":
				out[name] = 1
			case val == "false":
				out[name] = 0
			case strings.HasPrefix(val, "#x"):
				u, _ := strconv.ParseUint(val[2:], 16, 64)
				out[name] = u
			case strings.HasPrefix(val, "#b"):
				u, _ := strconv.ParseUint(val[2:], 2, 64)
				out[name] = u
			}
		}
	}
	return out
}

func tokenize(s string) []string {
	var toks []string
	cur := ""
	for i := 0; i < len(s); i++ {
		c := s[i]
		switch c {
		case '(', ')':
			if cur != "" {
				toks = append(toks, cur)
				cur = ""
			}
			toks = append(toks, string(c))
		case ' ', '\t', '\n', '\r':
			if cur != "" {
				toks = append(toks, cur)
				cur = ""
			}
		default:
			cur += string(c)
		}
	}
	if cur != "" {
		toks = append(toks, cur)
	}
	return toks
}
