package ext

import (
	lang "github.com/alligator/jqawk/src"
	"github.com/alligator/jqawk/zzverif/vh"
)

var c14Selectors = []string{"$.result", "$.result[1]", "$.meta.inner", "$.result[0].name", "$", "$.nosuch", "$.result[5]", "[$.meta, $.result[0]]", "$.count + 1"}

var c14Programs = []string{
	"{ print $ is object, $index is unknown }\nEND { print 'end' }",
	"{ print $.name }",
	"$.n > 1 { print $.name; seen++ }\nEND { print seen }",
	"{ $.tag = 'x' }",
	"{ $.n++ }\n{ if ($.n > 2) next; print $.n }",
	"BEGIN { print 'begin' }\n{ total += $.n }\nEND { print total }",
	"{ print $file; exit }",
}

type c14Run struct {
	out, json string
	k, jk     int
}

func c14Eval(prog string, sels []string, docs []any) c14Run {
	var out vh.Out
	ev, err := lang.EvalProgram(prog, []lang.InputFile{{Name: "in", Reader: &vh.DocStream{Items: docs}}}, sels, &out, false)
	r := c14Run{out: out.String(), k: legal(err, "EvalProgram")}
	if err == nil && ev != nil {
		j, jerr := ev.GetRootJson()
		r.json = j
		if jerr != nil {
			r.jk = 1
		}
	}
	return r
}

// VHC14Selector (the library-level clause of C14): `-r E` behaves as
// `BEGINFILE { $ = E }` for programs that do not themselves inspect $ in
// BEGINFILE/ENDFILE rules: same standard output, same JSON output, same outcome.
func VHC14Selector() {
	sel := c14Selectors[vh.Choose("sel", len(c14Selectors))]
	prog := c14Programs[vh.Choose("prog", len(c14Programs))]
	n1 := float64(1 + vh.Choose("n1", 3))
	mk := func(tag string) any {
		return map[string]any{
			"result": []any{map[string]any{"name": tag + "a", "n": n1}, map[string]any{"name": tag + "b", "n": 2.0}},
			"meta":   map[string]any{"inner": map[string]any{"name": tag + "m", "n": 3.0}},
			"count":  2.0,
		}
	}
	ndocs := 1 + vh.Choose("ndocs", 2)
	docs := func() []any {
		var d []any
		for i := 0; i < ndocs; i++ {
			d = append(d, mk(itoa(i)))
		}
		return d
	}
	a := c14Eval(prog, []string{sel}, docs())
	b := c14Eval("BEGINFILE { $ = "+sel+" }\n"+prog, nil, docs())
	vh.Reach("selector compared")
	vh.Assert(a.k == b.k, "C14: -r E and BEGINFILE { $ = E } end with the same outcome: E = "+sel)
	vh.Assert(a.out == b.out, "C14: -r E and BEGINFILE { $ = E } print the same: E = "+sel)
	vh.Assert(a.jk == b.jk && a.json == b.json, "C14: -r E and BEGINFILE { $ = E } write the same JSON: E = "+sel)
}
