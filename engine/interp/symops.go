package interp

// Instruction-level support for symbolic operands: indices, slices, map keys, ranges,
// conversions that need the engine (forking).

import (
	"fmt"
	"go/types"
	"sort"
	"unicode/utf8"

	"golang.org/x/tools/go/ssa"
)

func (fr *frame) eng() *Engine { return fr.i.eng }

func (fr *frame) markSym() {
	if fr.i.symFuncs != nil {
		f := fr.fn
		for f.Parent() != nil {
			f = f.Parent()
		}
		fr.i.symFuncs[f.String()] = true
	}
}

// setv stores an instruction result, noting symbolic activity.
func (fr *frame) setv(instr ssa.Value, v value) {
	if isSym(v) {
		fr.markSym()
	}
	fr.put(instr, v)
}

// int64Term widens an integer term to 64 bits according to its kind.
func int64Term(v symv) *Term {
	_, signed := kindBits(v.K)
	return Resize(v.T, 64, signed)
}

// index resolves an index operand against a container of the given length.
// Concrete indices are returned as they are (the host slice operation reports range
// errors); symbolic indices carry the implicit obligation 0 <= idx < length and are
// then concretised by forking.
func (fr *frame) index(idx value, length int) int64 {
	sv, ok := idx.(symv)
	if !ok {
		return asInt64(idx)
	}
	e := fr.eng()
	t := int64Term(sv)
	inb := And(BVCmp("bvsge", t, BVConst(0, 64)), BVCmp("bvslt", t, BVConst(uint64(length), 64)))
	if !e.decide(inb) {
		panic(fmt.Sprintf("runtime error: index out of range [symbolic] with length %d", length))
	}
	return int64(e.concretize(t, "index"))
}

// bound resolves a slice bound (0 <= b <= max).
func (fr *frame) bound(b value, max int) int64 {
	sv, ok := b.(symv)
	if !ok {
		return asInt64(b)
	}
	e := fr.eng()
	t := int64Term(sv)
	inb := And(BVCmp("bvsge", t, BVConst(0, 64)), BVCmp("bvsle", t, BVConst(uint64(max), 64)))
	if !e.decide(inb) {
		panic(fmt.Sprintf("runtime error: slice bounds out of range [symbolic] with capacity %d", max))
	}
	return int64(e.concretize(t, "slice bound"))
}

// strIndex reads s[idx] for a symbolic index as an ite chain (no fork except the
// range obligation).
func (fr *frame) strIndex(b []value, idx value) value {
	sv, ok := idx.(symv)
	if !ok {
		return b[asInt64(idx)]
	}
	e := fr.eng()
	t := int64Term(sv)
	inb := And(BVCmp("bvsge", t, BVConst(0, 64)), BVCmp("bvslt", t, BVConst(uint64(len(b)), 64)))
	if !e.decide(inb) {
		panic(fmt.Sprintf("runtime error: index out of range [symbolic] with length %d", len(b)))
	}
	res := bv8(b[len(b)-1])
	for i := len(b) - 2; i >= 0; i-- {
		res = Ite(Eq(t, BVConst(uint64(i), 64)), bv8(b[i]), res)
	}
	return mkVal(res, types.Uint8)
}

// concreteInt forces an integer operand to a concrete value (forking over its
// feasible values).
func (fr *frame) concreteInt(v value, what string) int64 {
	sv, ok := v.(symv)
	if !ok {
		return asInt64(v)
	}
	return int64(fr.eng().concretize(int64Term(sv), what))
}

// runeToString implements string(r) for a symbolic rune or byte: UTF-8 encoding with
// one fork per encoded length.
func (fr *frame) runeToString(v symv) value {
	e := fr.eng()
	_, signed := kindBits(v.K)
	r := Resize(v.T, 32, signed)
	c := func(x uint64) *Term { return BVConst(x, 32) }
	lt := func(a *Term, x uint64) *Term { return BVCmp("bvult", a, c(x)) }
	byteOf := func(t *Term) value { return mkVal(Resize(t, 8, false), types.Uint8) }
	shr := func(t *Term, n uint64) *Term { return BVBin("bvlshr", t, c(n)) }
	and := func(t *Term, m uint64) *Term { return BVBin("bvand", t, c(m)) }
	or := func(t *Term, m uint64) *Term { return BVBin("bvor", t, c(m)) }
	if e.decide(lt(r, 0x80)) {
		return normStr([]value{byteOf(r)})
	}
	if e.decide(lt(r, 0x800)) {
		return normStr([]value{byteOf(or(shr(r, 6), 0xC0)), byteOf(or(and(r, 0x3F), 0x80))})
	}
	// surrogates and out-of-range runes become U+FFFD
	bad := Or(And(Not(lt(r, 0xD800)), lt(r, 0xE000)), Not(lt(r, 0x110000)))
	if e.decide(bad) {
		return string(utf8.RuneError)
	}
	if e.decide(lt(r, 0x10000)) {
		return normStr([]value{byteOf(or(shr(r, 12), 0xE0)), byteOf(or(and(shr(r, 6), 0x3F), 0x80)), byteOf(or(and(r, 0x3F), 0x80))})
	}
	return normStr([]value{byteOf(or(shr(r, 18), 0xF0)), byteOf(or(and(shr(r, 12), 0x3F), 0x80)), byteOf(or(and(shr(r, 6), 0x3F), 0x80)), byteOf(or(and(r, 0x3F), 0x80))})
}

// ---- string range with symbolic bytes (UTF-8 decoding by forking) ----

type symStringIter struct {
	fr *frame
	b  []value
	i  int
}

func inRange8(t *Term, lo, hi uint8) *Term {
	return And(BVCmp("bvuge", t, BVConst(uint64(lo), 8)), BVCmp("bvule", t, BVConst(uint64(hi), 8)))
}

func (it *symStringIter) next() tuple {
	okv := make(tuple, 3)
	if it.i >= len(it.b) {
		okv[0] = false
		return okv
	}
	e := it.fr.eng()
	okv[0] = true
	okv[1] = it.i
	b0 := it.b[it.i]
	if c, ok := b0.(uint8); ok && c < 0x80 {
		okv[2] = rune(c)
		it.i++
		return okv
	}
	t0 := bv8(b0)
	z32 := func(t *Term) *Term { return Resize(t, 32, false) }
	if e.decide(BVCmp("bvult", t0, BVConst(0x80, 8))) {
		okv[2] = mkVal(z32(t0), types.Int32)
		it.i++
		return okv
	}
	cont := func(j int, lo, hi uint8) bool {
		if it.i+j >= len(it.b) {
			return false
		}
		return e.decide(inRange8(bv8(it.b[it.i+j]), lo, hi))
	}
	mask := func(v value, m uint8) *Term { return z32(BVBin("bvand", bv8(v), BVConst(uint64(m), 8))) }
	shl := func(t *Term, n int) *Term { return BVBin("bvshl", t, BVConst(uint64(n), 32)) }
	or := func(a, b *Term) *Term { return BVBin("bvor", a, b) }
	at := func(j int) value { return it.b[it.i+j] }
	two := func() { okv[2] = mkVal(or(shl(mask(b0, 0x1F), 6), mask(at(1), 0x3F)), types.Int32); it.i += 2 }
	three := func() {
		okv[2] = mkVal(or(or(shl(mask(b0, 0x0F), 12), shl(mask(at(1), 0x3F), 6)), mask(at(2), 0x3F)), types.Int32)
		it.i += 3
	}
	four := func() {
		okv[2] = mkVal(or(or(or(shl(mask(b0, 0x07), 18), shl(mask(at(1), 0x3F), 12)), shl(mask(at(2), 0x3F), 6)), mask(at(3), 0x3F)), types.Int32)
		it.i += 4
	}
	eq0 := func(x uint8) *Term { return Eq(t0, BVConst(uint64(x), 8)) }
	// exact UTF-8 acceptance table of unicode/utf8 (first byte classes and second-byte ranges)
	switch {
	case e.decide(inRange8(t0, 0xC2, 0xDF)):
		if cont(1, 0x80, 0xBF) {
			two()
			return okv
		}
	case e.decide(eq0(0xE0)):
		if cont(1, 0xA0, 0xBF) && cont(2, 0x80, 0xBF) {
			three()
			return okv
		}
	case e.decide(eq0(0xED)):
		if cont(1, 0x80, 0x9F) && cont(2, 0x80, 0xBF) {
			three()
			return okv
		}
	case e.decide(inRange8(t0, 0xE1, 0xEF)): // E1..EC, EE..EF (ED handled above)
		if cont(1, 0x80, 0xBF) && cont(2, 0x80, 0xBF) {
			three()
			return okv
		}
	case e.decide(eq0(0xF0)):
		if cont(1, 0x90, 0xBF) && cont(2, 0x80, 0xBF) && cont(3, 0x80, 0xBF) {
			four()
			return okv
		}
	case e.decide(eq0(0xF4)):
		if cont(1, 0x80, 0x8F) && cont(2, 0x80, 0xBF) && cont(3, 0x80, 0xBF) {
			four()
			return okv
		}
	case e.decide(inRange8(t0, 0xF1, 0xF3)):
		if cont(1, 0x80, 0xBF) && cont(2, 0x80, 0xBF) && cont(3, 0x80, 0xBF) {
			four()
			return okv
		}
	}
	okv[2] = rune(utf8.RuneError)
	it.i++
	return okv
}

// ---- maps ----

// symKey boxes a symbolic string used as a map key (hashable by pointer identity).
type symKey struct {
	s   symStr
	seq int
}

// sortedKeys returns the keys of a builtin map in canonical order: concrete keys
// sorted, then symbolic keys in insertion order.
func sortedKeys(m map[value]value) []value {
	keys := make([]value, 0, len(m))
	for k := range m {
		keys = append(keys, k)
	}
	sort.Slice(keys, func(a, b int) bool { return keyLess(keys[a], keys[b]) })
	return keys
}

func keyRank(k value) int {
	switch k.(type) {
	case *symKey:
		return 1
	}
	return 0
}

func keyLess(a, b value) bool {
	ra, rb := keyRank(a), keyRank(b)
	if ra != rb {
		return ra < rb
	}
	switch x := a.(type) {
	case string:
		return x < b.(string)
	case *symKey:
		return x.seq < b.(*symKey).seq
	case bool:
		return !x && b.(bool)
	case *value:
		return fmt.Sprintf("%p", x) < fmt.Sprintf("%p", b) // pointer keys: not used by jqawk
	}
	if _, ok := concreteKind(a); ok {
		if _, signed := kindBits(mustKind(a)); signed {
			return asInt64(a) < asInt64(b)
		}
		return asUint64ish(a) < asUint64ish(b)
	}
	return fmt.Sprint(a) < fmt.Sprint(b)
}

func mustKind(v value) types.BasicKind { k, _ := concreteKind(v); return k }

func keyBytes(k value) []value {
	if sk, ok := k.(*symKey); ok {
		return sk.s.B
	}
	return strBytes(k)
}

// mapFind locates key in m, forking on equality with every entry whose key could be
// equal when symbolic strings are involved. It returns the stored key.
func (fr *frame) mapFind(m map[value]value, key value) (value, bool) {
	_, keySym := key.(symStr)
	hasSymEntries := false
	for k := range m {
		if _, ok := k.(*symKey); ok {
			hasSymEntries = true
			break
		}
	}
	if !keySym && !hasSymEntries {
		_, ok := m[key]
		return key, ok
	}
	if !keySym {
		if _, ok := m[key]; ok {
			return key, true
		}
	}
	kb := strBytes(key)
	for _, k := range sortedKeys(m) {
		if !keySym {
			if _, ok := k.(*symKey); !ok {
				continue // concrete vs concrete already handled
			}
		}
		if fr.eng().decide(strEqTerm(kb, keyBytes(k))) {
			return k, true
		}
	}
	return nil, false
}

func (fr *frame) mapLookup(instr *ssa.Lookup, m map[value]value, key value) value {
	var v value
	k, ok := fr.mapFind(m, key)
	if ok {
		v = m[k]
	} else {
		v = zero(instr.X.Type().Underlying().(*types.Map).Elem())
	}
	if instr.CommaOk {
		return tuple{v, ok}
	}
	return v
}

func (fr *frame) mapUpdate(m map[value]value, key, v value) {
	k, ok := fr.mapFind(m, key)
	if ok {
		m[k] = v
		return
	}
	if ks, isSym := key.(symStr); isSym {
		fr.i.symKeySeq++
		m[&symKey{ks, fr.i.symKeySeq}] = v
		return
	}
	m[key] = v
}

func (fr *frame) mapDelete(m map[value]value, key value) {
	if k, ok := fr.mapFind(m, key); ok {
		delete(m, k)
	}
}

// orderedMapIter iterates a builtin map in canonical order, or — when the harness
// switched map-order exploration on — in an order drawn from a symbolic permutation.
type orderedMapIter struct {
	m    map[value]value
	keys []value
	i    int
}

func (it *orderedMapIter) next() tuple {
	for it.i < len(it.keys) {
		k := it.keys[it.i]
		it.i++
		v, ok := it.m[k]
		if !ok {
			continue // deleted during iteration
		}
		if sk, ok := k.(*symKey); ok {
			return tuple{true, sk.s, v}
		}
		return tuple{true, k, v}
	}
	return tuple{false, nil, nil}
}

func (fr *frame) rangeMap(m map[value]value) iter {
	keys := sortedKeys(m)
	if fr.i.mapOrders == 1 && len(keys) >= 2 && fr.i.eng != nil {
		// one symbolic direction for every map range of this activation
		if !fr.i.orderDecided {
			e := fr.i.eng
			fr.i.orderSeq++
			name := fmt.Sprintf("maporder!run%d", fr.i.orderSeq)
			s := e.newSym(name, SBV8)
			e.chooses[name] = true
			e.assume(mkBool(BVCmp("bvult", s, BVConst(2, 8))))
			fr.i.orderRev = e.decide(Eq(s, BVConst(1, 8)))
			fr.i.orderDecided = true
		}
		if fr.i.orderRev {
			for a, b := 0, len(keys)-1; a < b; a, b = a+1, b-1 {
				keys[a], keys[b] = keys[b], keys[a]
			}
		}
	}
	if fr.i.mapOrders == 2 && len(keys) >= 2 && fr.i.eng != nil {
		if len(keys) > 4 {
			unsup("map order exploration: %d keys", len(keys))
		}
		// draw a permutation: position i takes one of the remaining keys
		e := fr.i.eng
		rest := append([]value{}, keys...)
		perm := make([]value, 0, len(keys))
		for len(rest) > 1 {
			fr.i.permSeq++
			name := fmt.Sprintf("maporder!%d", fr.i.permSeq)
			s := e.newSym(name, SBV8)
			e.chooses[name] = true
			e.assume(mkBool(BVCmp("bvult", s, BVConst(uint64(len(rest)), 8))))
			pick := len(rest) - 1
			for j := 0; j < len(rest)-1; j++ {
				if e.decide(Eq(s, BVConst(uint64(j), 8))) {
					pick = j
					break
				}
			}
			perm = append(perm, rest[pick])
			rest = append(rest[:pick:pick], rest[pick+1:]...)
		}
		perm = append(perm, rest[0])
		keys = perm
	}
	return &orderedMapIter{m: m, keys: keys}
}
