// Copyright 2013 The Go Authors. All rights reserved.
// Use of this source code is governed by a BSD-style
// license that can be found in the LICENSE file.

package interp

// Emulated "reflect" package.
//
// We completely replace the built-in "reflect" package.
// The only thing clients can depend upon are that reflect.Type is an
// interface and reflect.Value is an (opaque) struct.

import (
	"fmt"
	"go/token"
	"go/types"
	"reflect"
	"unsafe"

	"golang.org/x/tools/go/ssa"
)

type opaqueType struct {
	types.Type
	name string
}

func (t *opaqueType) String() string { return t.name }

// A bogus "reflect" type-checker package.  Shared across interpreters.
var reflectTypesPackage = types.NewPackage("reflect", "reflect")

// rtype is the concrete type the interpreter uses to implement the
// reflect.Type interface.
//
// type rtype <opaque>
var rtypeType = makeNamedType("rtype", &opaqueType{nil, "rtype"})

// error is an (interpreted) named type whose underlying type is string.
// The interpreter uses it for all implementations of the built-in error
// interface that it creates.
// We put it in the "reflect" package for expedience.
//
// type error string
var errorType = makeNamedType("error", &opaqueType{nil, "error"})

func makeNamedType(name string, underlying types.Type) *types.Named {
	obj := types.NewTypeName(token.NoPos, reflectTypesPackage, name, nil)
	return types.NewNamed(obj, underlying, nil)
}

func makeReflectValue(t types.Type, v value) value {
	return structure{rtype{t}, v}
}

// Given a reflect.Value, returns its rtype.
func rV2T(v value) rtype {
	return v.(structure)[0].(rtype)
}

// Given a reflect.Value, returns the underlying interpreter value.
func rV2V(v value) value {
	return v.(structure)[1]
}

// makeReflectType boxes up an rtype in a reflect.Type interface.
func makeReflectType(rt rtype) value {
	return iface{rtypeType, rt}
}

func ext۰reflect۰rtype۰Bits(fr *frame, args []value) value {
	// Signature: func (t reflect.rtype) int
	rt := args[0].(rtype).t
	basic, ok := rt.Underlying().(*types.Basic)
	if !ok {
		panic(fmt.Sprintf("reflect.Type.Bits(%T): non-basic type", rt))
	}
	return int(fr.i.sizes.Sizeof(basic)) * 8
}

func ext۰reflect۰rtype۰Elem(fr *frame, args []value) value {
	// Signature: func (t reflect.rtype) reflect.Type
	return makeReflectType(rtype{args[0].(rtype).t.Underlying().(interface {
		Elem() types.Type
	}).Elem()})
}

func ext۰reflect۰rtype۰Field(fr *frame, args []value) value {
	// Signature: func (t reflect.rtype, i int) reflect.StructField
	st := args[0].(rtype).t.Underlying().(*types.Struct)
	i := args[1].(int)
	f := st.Field(i)
	return structure{
		f.Name(),
		f.Pkg().Path(),
		makeReflectType(rtype{f.Type()}),
		st.Tag(i),
		0,         // TODO(adonovan): offset
		[]value{}, // TODO(adonovan): indices
		f.Anonymous(),
	}
}

func ext۰reflect۰rtype۰In(fr *frame, args []value) value {
	// Signature: func (t reflect.rtype, i int) int
	i := args[1].(int)
	return makeReflectType(rtype{args[0].(rtype).t.(*types.Signature).Params().At(i).Type()})
}

func ext۰reflect۰rtype۰Kind(fr *frame, args []value) value {
	// Signature: func (t reflect.rtype) uint
	return uint(reflectKind(args[0].(rtype).t))
}

func ext۰reflect۰rtype۰NumField(fr *frame, args []value) value {
	// Signature: func (t reflect.rtype) int
	return args[0].(rtype).t.Underlying().(*types.Struct).NumFields()
}

func ext۰reflect۰rtype۰NumIn(fr *frame, args []value) value {
	// Signature: func (t reflect.rtype) int
	return args[0].(rtype).t.Underlying().(*types.Signature).Params().Len()
}

func ext۰reflect۰rtype۰NumMethod(fr *frame, args []value) value {
	// Signature: func (t reflect.rtype) int
	return fr.i.prog.MethodSets.MethodSet(args[0].(rtype).t).Len()
}

func ext۰reflect۰rtype۰NumOut(fr *frame, args []value) value {
	// Signature: func (t reflect.rtype) int
	return args[0].(rtype).t.Underlying().(*types.Signature).Results().Len()
}

func ext۰reflect۰rtype۰Out(fr *frame, args []value) value {
	// Signature: func (t reflect.rtype, i int) int
	i := args[1].(int)
	return makeReflectType(rtype{args[0].(rtype).t.Underlying().(*types.Signature).Results().At(i).Type()})
}

func ext۰reflect۰rtype۰Size(fr *frame, args []value) value {
	// Signature: func (t reflect.rtype) uintptr
	return uintptr(fr.i.sizes.Sizeof(args[0].(rtype).t))
}

func ext۰reflect۰rtype۰String(fr *frame, args []value) value {
	// Signature: func (t reflect.rtype) string
	return args[0].(rtype).t.String()
}

func ext۰reflect۰New(fr *frame, args []value) value {
	// Signature: func (t reflect.Type) reflect.Value
	t := args[0].(iface).v.(rtype).t
	alloc := zero(t)
	return makeReflectValue(types.NewPointer(t), &alloc)
}

func ext۰reflect۰SliceOf(fr *frame, args []value) value {
	// Signature: func (t reflect.rtype) Type
	return makeReflectType(rtype{types.NewSlice(args[0].(iface).v.(rtype).t)})
}

func ext۰reflect۰TypeOf(fr *frame, args []value) value {
	// Signature: func (t reflect.rtype) Type
	return makeReflectType(rtype{args[0].(iface).t})
}

func ext۰reflect۰ValueOf(fr *frame, args []value) value {
	// Signature: func (interface{}) reflect.Value
	itf := args[0].(iface)
	return makeReflectValue(itf.t, itf.v)
}

func ext۰reflect۰Zero(fr *frame, args []value) value {
	// Signature: func (t reflect.Type) reflect.Value
	t := args[0].(iface).v.(rtype).t
	return makeReflectValue(t, zero(t))
}

func reflectKind(t types.Type) reflect.Kind {
	switch t := t.(type) {
	case *types.Named, *types.Alias:
		return reflectKind(t.Underlying())
	case *types.Basic:
		switch t.Kind() {
		case types.Bool:
			return reflect.Bool
		case types.Int:
			return reflect.Int
		case types.Int8:
			return reflect.Int8
		case types.Int16:
			return reflect.Int16
		case types.Int32:
			return reflect.Int32
		case types.Int64:
			return reflect.Int64
		case types.Uint:
			return reflect.Uint
		case types.Uint8:
			return reflect.Uint8
		case types.Uint16:
			return reflect.Uint16
		case types.Uint32:
			return reflect.Uint32
		case types.Uint64:
			return reflect.Uint64
		case types.Uintptr:
			return reflect.Uintptr
		case types.Float32:
			return reflect.Float32
		case types.Float64:
			return reflect.Float64
		case types.Complex64:
			return reflect.Complex64
		case types.Complex128:
			return reflect.Complex128
		case types.String:
			return reflect.String
		case types.UnsafePointer:
			return reflect.UnsafePointer
		}
	case *types.Array:
		return reflect.Array
	case *types.Chan:
		return reflect.Chan
	case *types.Signature:
		return reflect.Func
	case *types.Interface:
		return reflect.Interface
	case *types.Map:
		return reflect.Map
	case *types.Pointer:
		return reflect.Ptr
	case *types.Slice:
		return reflect.Slice
	case *types.Struct:
		return reflect.Struct
	}
	panic(fmt.Sprint("unexpected type: ", t))
}

func ext۰reflect۰Value۰Kind(fr *frame, args []value) value {
	// Signature: func (reflect.Value) uint
	return uint(reflectKind(rV2T(args[0]).t))
}

func ext۰reflect۰Value۰String(fr *frame, args []value) value {
	// Signature: func (reflect.Value) string
	return toString(rV2V(args[0]))
}

func ext۰reflect۰Value۰Type(fr *frame, args []value) value {
	// Signature: func (reflect.Value) reflect.Type
	return makeReflectType(rV2T(args[0]))
}

func ext۰reflect۰Value۰Uint(fr *frame, args []value) value {
	// Signature: func (reflect.Value) uint64
	switch v := rV2V(args[0]).(type) {
	case uint:
		return uint64(v)
	case uint8:
		return uint64(v)
	case uint16:
		return uint64(v)
	case uint32:
		return uint64(v)
	case uint64:
		return uint64(v)
	case uintptr:
		return uint64(v)
	}
	panic("reflect.Value.Uint")
}

func ext۰reflect۰Value۰Len(fr *frame, args []value) value {
	// Signature: func (reflect.Value) int
	switch v := rV2V(args[0]).(type) {
	case string:
		return len(v)
	case array:
		return len(v)
	case chan value:
		return cap(v)
	case []value:
		return len(v)
	case *hashmap:
		return v.len()
	case map[value]value:
		return len(v)
	default:
		panic(fmt.Sprintf("reflect.(Value).Len(%v)", v))
	}
}

func ext۰reflect۰Value۰MapIndex(fr *frame, args []value) value {
	// Signature: func (reflect.Value) Value
	tValue := rV2T(args[0]).t.Underlying().(*types.Map).Key()
	k := rV2V(args[1])
	switch m := rV2V(args[0]).(type) {
	case map[value]value:
		if v, ok := m[k]; ok {
			return makeReflectValue(tValue, v)
		}

	case *hashmap:
		if v := m.lookup(k.(hashable)); v != nil {
			return makeReflectValue(tValue, v)
		}

	default:
		panic(fmt.Sprintf("(reflect.Value).MapIndex(%T, %T)", m, k))
	}
	return makeReflectValue(nil, nil)
}

func ext۰reflect۰Value۰MapKeys(fr *frame, args []value) value {
	// Signature: func (reflect.Value) []Value
	var keys []value
	tKey := rV2T(args[0]).t.Underlying().(*types.Map).Key()
	switch v := rV2V(args[0]).(type) {
	case map[value]value:
		for k := range v {
			keys = append(keys, makeReflectValue(tKey, k))
		}

	case *hashmap:
		for _, e := range v.entries() {
			for ; e != nil; e = e.next {
				keys = append(keys, makeReflectValue(tKey, e.key))
			}
		}

	default:
		panic(fmt.Sprintf("(reflect.Value).MapKeys(%T)", v))
	}
	return keys
}

func ext۰reflect۰Value۰NumField(fr *frame, args []value) value {
	// Signature: func (reflect.Value) int
	return len(rV2V(args[0]).(structure))
}

func ext۰reflect۰Value۰NumMethod(fr *frame, args []value) value {
	// Signature: func (reflect.Value) int
	return fr.i.prog.MethodSets.MethodSet(rV2T(args[0]).t).Len()
}

func ext۰reflect۰Value۰Pointer(fr *frame, args []value) value {
	// Signature: func (v reflect.Value) uintptr
	switch v := rV2V(args[0]).(type) {
	case *value:
		return uintptr(unsafe.Pointer(v))
	case chan value:
		return reflect.ValueOf(v).Pointer()
	case []value:
		return reflect.ValueOf(v).Pointer()
	case *hashmap:
		return reflect.ValueOf(v.entries()).Pointer()
	case map[value]value:
		return reflect.ValueOf(v).Pointer()
	case *ssa.Function:
		return uintptr(unsafe.Pointer(v))
	case *closure:
		return uintptr(unsafe.Pointer(v))
	default:
		panic(fmt.Sprintf("reflect.(Value).Pointer(%T)", v))
	}
}

func ext۰reflect۰Value۰Index(fr *frame, args []value) value {
	// Signature: func (v reflect.Value, i int) Value
	i := args[1].(int)
	t := rV2T(args[0]).t.Underlying()
	switch v := rV2V(args[0]).(type) {
	case array:
		return makeReflectValue(t.(*types.Array).Elem(), v[i])
	case []value:
		return makeReflectValue(t.(*types.Slice).Elem(), v[i])
	default:
		panic(fmt.Sprintf("reflect.(Value).Index(%T)", v))
	}
}

func ext۰reflect۰Value۰Bool(fr *frame, args []value) value {
	// Signature: func (reflect.Value) bool
	return rV2V(args[0]).(bool)
}

func ext۰reflect۰Value۰CanAddr(fr *frame, args []value) value {
	// Signature: func (v reflect.Value) bool
	// Always false for our representation.
	return false
}

func ext۰reflect۰Value۰CanInterface(fr *frame, args []value) value {
	// Signature: func (v reflect.Value) bool
	// Always true for our representation.
	return true
}

func ext۰reflect۰Value۰Elem(fr *frame, args []value) value {
	// Signature: func (v reflect.Value) reflect.Value
	switch x := rV2V(args[0]).(type) {
	case iface:
		return makeReflectValue(x.t, x.v)
	case *value:
		var v value
		if x != nil {
			v = *x
		}
		return makeReflectValue(rV2T(args[0]).t.Underlying().(*types.Pointer).Elem(), v)
	default:
		panic(fmt.Sprintf("reflect.(Value).Elem(%T)", x))
	}
}

func ext۰reflect۰Value۰Field(fr *frame, args []value) value {
	// Signature: func (v reflect.Value, i int) reflect.Value
	v := args[0]
	i := args[1].(int)
	return makeReflectValue(rV2T(v).t.Underlying().(*types.Struct).Field(i).Type(), rV2V(v).(structure)[i])
}

func ext۰reflect۰Value۰Float(fr *frame, args []value) value {
	// Signature: func (reflect.Value) float64
	switch v := rV2V(args[0]).(type) {
	case float32:
		return float64(v)
	case float64:
		return float64(v)
	}
	panic("reflect.Value.Float")
}

func ext۰reflect۰Value۰Interface(fr *frame, args []value) value {
	// Signature: func (v reflect.Value) interface{}
	return ext۰reflect۰valueInterface(fr, args)
}

func ext۰reflect۰Value۰Int(fr *frame, args []value) value {
	// Signature: func (reflect.Value) int64
	switch x := rV2V(args[0]).(type) {
	case int:
		return int64(x)
	case int8:
		return int64(x)
	case int16:
		return int64(x)
	case int32:
		return int64(x)
	case int64:
		return x
	default:
		panic(fmt.Sprintf("reflect.(Value).Int(%T)", x))
	}
}

func ext۰reflect۰Value۰IsNil(fr *frame, args []value) value {
	// Signature: func (reflect.Value) bool
	switch x := rV2V(args[0]).(type) {
	case *value:
		return x == nil
	case chan value:
		return x == nil
	case map[value]value:
		return x == nil
	case *hashmap:
		return x == nil
	case iface:
		return x.t == nil
	case []value:
		return x == nil
	case *ssa.Function:
		return x == nil
	case *ssa.Builtin:
		return x == nil
	case *closure:
		return x == nil
	default:
		panic(fmt.Sprintf("reflect.(Value).IsNil(%T)", x))
	}
}

func ext۰reflect۰Value۰IsValid(fr *frame, args []value) value {
	// Signature: func (reflect.Value) bool
	return rV2V(args[0]) != nil
}

func ext۰reflect۰Value۰Set(fr *frame, args []value) value {
	// TODO(adonovan): implement.
	return nil
}

func ext۰reflect۰valueInterface(fr *frame, args []value) value {
	// Signature: func (v reflect.Value, safe bool) interface{}
	v := args[0].(structure)
	return iface{rV2T(v).t, rV2V(v)}
}

func ext۰reflect۰error۰Error(fr *frame, args []value) value {
	return args[0]
}

// newMethod creates a new method of the specified name, package and receiver type.
func newMethod(pkg *ssa.Package, recvType types.Type, name string) *ssa.Function {
	// TODO(adonovan): fix: hack: currently the only part of Signature
	// that is needed is the "pointerness" of Recv.Type, and for
	// now, we'll set it to always be false since we're only
	// concerned with rtype.  Encapsulate this better.
	sig := types.NewSignature(types.NewVar(token.NoPos, nil, "recv", recvType), nil, nil, false)
	fn := pkg.Prog.NewFunction(name, sig, "fake reflect method")
	fn.Pkg = pkg
	return fn
}

func initReflect(i *interpreter) {
	i.reflectPackage = &ssa.Package{
		Prog:    i.prog,
		Pkg:     reflectTypesPackage,
		Members: make(map[string]ssa.Member),
	}

	// Clobber the type-checker's notion of reflect.Value's
	// underlying type so that it more closely matches the fake one
	// (at least in the number of fields---we lie about the type of
	// the rtype field).
	//
	// We must ensure that calls to (ssa.Value).Type() return the
	// fake type so that correct "shape" is used when allocating
	// variables, making zero values, loading, and storing.
	//
	// TODO(adonovan): obviously this is a hack.  We need a cleaner
	// way to fake the reflect package (almost---DeepEqual is fine).
	// One approach would be not to even load its source code, but
	// provide fake source files.  This would guarantee that no bad
	// information leaks into other packages.
	if r := i.prog.ImportedPackage("reflect"); r != nil {
		rV := r.Pkg.Scope().Lookup("Value").Type().(*types.Named)

		// delete bodies of the old methods
		mset := i.prog.MethodSets.MethodSet(rV)
		for j := 0; j < mset.Len(); j++ {
			i.prog.MethodValue(mset.At(j)).Blocks = nil
		}

		tEface := types.NewInterface(nil, nil).Complete()
		rV.SetUnderlying(types.NewStruct([]*types.Var{
			types.NewField(token.NoPos, r.Pkg, "t", tEface, false), // a lie
			types.NewField(token.NoPos, r.Pkg, "v", tEface, false),
		}, nil))
	}

	i.rtypeMethods = methodSet{
		"Bits":      newMethod(i.reflectPackage, rtypeType, "Bits"),
		"Elem":      newMethod(i.reflectPackage, rtypeType, "Elem"),
		"Field":     newMethod(i.reflectPackage, rtypeType, "Field"),
		"In":        newMethod(i.reflectPackage, rtypeType, "In"),
		"Kind":      newMethod(i.reflectPackage, rtypeType, "Kind"),
		"NumField":  newMethod(i.reflectPackage, rtypeType, "NumField"),
		"NumIn":     newMethod(i.reflectPackage, rtypeType, "NumIn"),
		"NumMethod": newMethod(i.reflectPackage, rtypeType, "NumMethod"),
		"NumOut":    newMethod(i.reflectPackage, rtypeType, "NumOut"),
		"Out":       newMethod(i.reflectPackage, rtypeType, "Out"),
		"Size":      newMethod(i.reflectPackage, rtypeType, "Size"),
		"String":    newMethod(i.reflectPackage, rtypeType, "String"),
	}
	i.errorMethods = methodSet{
		"Error": newMethod(i.reflectPackage, errorType, "Error"),
	}
}
