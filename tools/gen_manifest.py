#!/usr/bin/env python3
"""Regenerates MANIFEST.json from harness/registry.json + the texts below."""
import json, os, sys
V = os.path.dirname(os.path.dirname(os.path.abspath(__file__)))
reg = json.load(open(os.path.join(V, "harness", "registry.json")))
props = [json.loads(l) for l in open(os.path.join(V, "properties.jsonl"))]
notes = json.load(open(os.path.join(V, "tools", "manifest_notes.json")))

checks = []
na = []
for p in props:
    pid = p["id"]
    if pid in reg and reg[pid].get("harnesses"):
        n = notes.get(pid, {})
        checks.append({
            "property_id": pid,
            "quick_cmd": "./checks/run %s quick" % pid,
            "thorough_cmd": "./checks/run %s thorough" % pid,
            "evidence_file": "/verif/evidence/%s.json" % pid,
            "replay_cmd_template": "./bin/symgo replay {path}",
            "engine": "symgo",
            "level_claimed": {
                "category": "model_checking",
                "text": n.get("text", "Bounded symbolic execution of the real go/ssa of jqawk from harness entry points; within the stated bounds every input is covered by a path whose condition an SMT solver (z3, cvc5 fallback) decided; counterexamples are replayed natively before they are reported."),
                "design_ref": n.get("design_ref", "DESIGN.md section 4 " + pid),
            },
            "level_note": n.get("note", "Trusted: go/ssa construction, the symgo executor (validated by selftest and native replay in both directions), the standard-library stubs of DESIGN.md 2.6, the SMT solvers, the reference models in harness/ext."),
            "technique": n.get("technique", "symbolic execution of go/ssa + SMT (z3/cvc5), bounded; native replay of models"),
        })
    else:
        na.append({"property_id": pid, "reason": notes.get(pid, {}).get("na_reason", "no check registered yet in this revision (work in progress)")})

m = {
    "version": 1,
    "setup_cmd": "./checks/setup",
    "hooks": {
        "guard": "verif",
        "enable": "none needed: harnesses are injected as build overlays (go/packages Overlay for the engine, go build -overlay for native replay); no file of /repo is instrumented",
        "baseline_off_cmd": "cd /repo && go test -vet=off -count=1 -timeout 25m ./...",
        "source_commits": [],
        "add_only": True,
    },
    "engines": [{
        "name": "symgo",
        "path": "/verif/engine",
        "serves_properties": [c["property_id"] for c in checks],
        "kind_free_text": "purpose-built symbolic executor for Go SSA (fork of golang.org/x/tools/go/ssa/interp v0.29.0 with symbolic scalars/byte strings, decision-log DFS with deterministic re-execution, SMT-LIB2 over pipes to z3 4.8.12 / cvc5 1.0.3, native replay via go build -overlay)",
    }],
    "checks": checks,
    "not_applicable": na,
    "notes": "All checks: ./checks/run <ID> <tier>. Evidence is written by the run. Known findings: /verif/known_findings.json (read-only at run time). See DESIGN.md.",
}
json.dump(m, open(os.path.join(V, "MANIFEST.json"), "w"), indent=1)
print("checks:", [c["property_id"] for c in checks], "na:", len(na))
