#!/bin/sh
# usage: tools/mut.sh <file-in-repo> <python-regex-old> <new> -- <command...>
# Applies a one-off textual mutation to /repo, runs the command, and reverts it.
f="$1"; old="$2"; new="$3"; shift 4
python3 - "$f" "$old" "$new" <<'PY'
import sys,re
p,old,new=sys.argv[1:4]
s=open(p).read()
if old not in s:
    print("MUTATION PATTERN NOT FOUND"); sys.exit(3)
open(p,'w').write(s.replace(old,new,1))
PY
[ $? -eq 0 ] || exit 3
"$@"
rc=$?
git -C /repo checkout -- "$f"
exit $rc
