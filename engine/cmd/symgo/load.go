package main

import (
	"fmt"
	"go/types"
	"os"
	"path/filepath"
	"sort"
	"strings"

	"golang.org/x/tools/go/packages"
	"golang.org/x/tools/go/ssa"
	"golang.org/x/tools/go/ssa/ssautil"
)

const (
	repoDir   = "/repo"
	modPath   = "github.com/alligator/jqawk"
	vhPath    = modPath + "/zzverif/vh"
	extPath   = modPath + "/zzverif/ext"
	langPath  = modPath + "/src"
	cliPath   = modPath + "/cli"
	replayPkg = modPath + "/zzverif/cmd/replay"
)

func verifDir() string {
	if d := os.Getenv("VERIF_DIR"); d != "" {
		return d
	}
	exe, err := os.Executable()
	if err == nil {
		// <verif>/bin/symgo
		return filepath.Dir(filepath.Dir(exe))
	}
	return "/verif"
}

// overlayFiles maps virtual paths inside /repo to real files under /verif/harness.
// Nothing is ever written into /repo.
func overlayFiles() map[string]string {
	ov := map[string]string{}
	h := filepath.Join(verifDir(), "harness")
	add := func(srcDir, dstDir, prefix string) {
		ents, _ := os.ReadDir(filepath.Join(h, srcDir))
		for _, e := range ents {
			if e.IsDir() || !strings.HasSuffix(e.Name(), ".go") {
				continue
			}
			ov[filepath.Join(repoDir, dstDir, prefix+e.Name())] = filepath.Join(h, srcDir, e.Name())
		}
	}
	add("vh", "zzverif/vh", "")
	add("ext", "zzverif/ext", "")
	add("inpkg", "src", "zz_verif_")
	return ov
}

// inpkgAnchorsOK checks that the in-package harness files still type-check against the
// current tree; if a refactoring removed an anchor they name, they are left out (the
// sub-checks that need them are reported as skipped, not as failures).
type loaded struct {
	prog    *ssa.Program
	ext     *ssa.Package
	lang    *ssa.Package
	vh      *ssa.Package
	fnNames []string // harness functions in ext (VH*)
	inpkg   bool     // in-package harness files were loaded
	skipped string   // why in-package harnesses were skipped
}

func loadProgram(extra map[string][]byte, withInpkg bool) (*loaded, error) {
	ov := map[string][]byte{}
	files := overlayFiles()
	for virt, real := range files {
		if !withInpkg && strings.HasPrefix(virt, filepath.Join(repoDir, "src")+"/") {
			continue
		}
		b, err := os.ReadFile(real)
		if err != nil {
			return nil, err
		}
		ov[virt] = b
	}
	if !withInpkg {
		// ext files that need in-package hooks are tagged by name *_inpkg.go
		for virt := range ov {
			if strings.HasSuffix(virt, "_inpkg.go") {
				delete(ov, virt)
			}
		}
	}
	for k, v := range extra {
		ov[k] = v
	}
	cfg := &packages.Config{
		Mode:    packages.LoadAllSyntax,
		Dir:     repoDir,
		Overlay: ov,
		Env:     append(os.Environ(), "GOFLAGS=-mod=mod", "GOPROXY=off", "GOSUMDB=off", "GOTOOLCHAIN=local"),
	}
	pkgs, err := packages.Load(cfg, "./zzverif/ext")
	if err != nil {
		return nil, err
	}
	var errs []string
	packages.Visit(pkgs, nil, func(p *packages.Package) {
		for _, e := range p.Errors {
			errs = append(errs, e.Error())
		}
	})
	if len(errs) > 0 {
		return nil, fmt.Errorf("load errors:\n  %s", strings.Join(errs, "\n  "))
	}
	prog, spkgs := ssautil.AllPackages(pkgs, ssa.InstantiateGenerics)
	prog.Build()
	l := &loaded{prog: prog, ext: spkgs[0], inpkg: withInpkg}
	l.lang = prog.ImportedPackage(langPath)
	l.vh = prog.ImportedPackage(vhPath)
	for name, m := range l.ext.Members {
		if f, ok := m.(*ssa.Function); ok && strings.HasPrefix(name, "VH") && f.Signature.Params().Len() == 0 {
			l.fnNames = append(l.fnNames, name)
		}
	}
	sort.Strings(l.fnNames)
	return l, nil
}

// load tries with the in-package harnesses first and degrades to the public-API
// harnesses alone when those no longer type-check.
func load(extra map[string][]byte) (*loaded, error) {
	l, err := loadProgram(extra, true)
	if err == nil {
		return l, nil
	}
	l2, err2 := loadProgram(extra, false)
	if err2 != nil {
		return nil, fmt.Errorf("%v\n(and without in-package harnesses: %v)", err, err2)
	}
	l2.skipped = err.Error()
	return l2, nil
}

var stdSizes = &types.StdSizes{WordSize: 8, MaxAlign: 8}

var initAllow = []string{
	vhPath, extPath, langPath, "unicode", "strconv", "strings", "cmp", "slices", "math",
	"unicode/utf8", "math/bits", "io", "sort", "bytes",
}

var mutablePkgs = []string{vhPath, extPath, langPath}
