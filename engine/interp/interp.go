// Copyright 2013 The Go Authors. All rights reserved.
// Use of this source code is governed by a BSD-style
// license that can be found in the LICENSE file.

// Package ssa/interp defines an interpreter for the SSA
// representation of Go programs.
//
// This interpreter is provided as an adjunct for testing the SSA
// construction algorithm.  Its purpose is to provide a minimal
// metacircular implementation of the dynamic semantics of each SSA
// instruction.  It is not, and will never be, a production-quality Go
// interpreter.
//
// The following is a partial list of Go features that are currently
// unsupported or incomplete in the interpreter.
//
// * Unsafe operations, including all uses of unsafe.Pointer, are
// impossible to support given the "boxed" value representation we
// have chosen.
//
// * The reflect package is only partially implemented.
//
// * The "testing" package is no longer supported because it
// depends on low-level details that change too often.
//
// * "sync/atomic" operations are not atomic due to the "boxed" value
// representation: it is not possible to read, modify and write an
// interface value atomically. As a consequence, Mutexes are currently
// broken.
//
// * recover is only partially implemented.  Also, the interpreter
// makes no attempt to distinguish target panics from interpreter
// crashes.
//
// * the sizes of the int, uint and uintptr types in the target
// program are assumed to be the same as those of the interpreter
// itself.
//
// * all values occupy space, even those of types defined by the spec
// to have zero size, e.g. struct{}.  This can cause asymptotic
// performance degradation.
//
// * os.Exit is implemented using panic, causing deferred functions to
// run.
package interp

import (
	"fmt"
	"go/token"
	"go/types"
	"log"
	"os"
	"reflect"
	"runtime"
	"slices"
	"sync/atomic"
	_ "unsafe"

	"golang.org/x/tools/go/ssa"
)

type continuation int

const (
	kNext continuation = iota
	kReturn
	kJump
)

// Mode is a bitmask of options affecting the interpreter.
type Mode uint

const (
	DisableRecover Mode = 1 << iota // Disable recover() in target programs; show interpreter crash instead.
	EnableTracing                   // Print a trace of all instructions as they are interpreted.
)

type methodSet map[string]*ssa.Function

// State shared between all interpreted goroutines.
type interpreter struct {
	osArgs             []value                // the value of os.Args
	prog               *ssa.Program           // the SSA program
	globals            map[*ssa.Global]*value // addresses of global variables (immutable)
	mode               Mode                   // interpreter options
	reflectPackage     *ssa.Package           // the fake reflect package
	errorMethods       methodSet              // the method set of reflect.error, which implements the error interface.
	rtypeMethods       methodSet              // the method set of rtype, which implements the reflect.Type interface.
	runtimeErrorString types.Type             // the runtime.errorString type
	sizes              types.Sizes            // the effective type-sizing function
	goroutines         int32                  // atomically updated
	base               *interpBase            // shared program-wide state (read-only globals)
	eng                *Engine                // symbolic engine of the worker running this interpreter (nil = concrete run)
	instrs             int64                  // SSA instructions executed
	intercepted        int                    // calls redirected to summaries
	symFuncs           map[string]bool        // functions that computed a symbolic value
	curFrame           *frame
	curInstr           ssa.Instruction
	mapOrders          int // 0 canonical order; 1 one symbolic direction (forward/reverse) per activation; 2 a symbolic permutation per range
	orderSeq           int
	orderDecided       bool
	orderRev           bool
	symKeySeq          int
	permSeq            int
	hooks              map[string]value // per-path harness state (vh)
	os                 *osModel         // process environment model, set while vh.RunCLI runs
	pools              map[*value][]value // sync.Pool model: what was Put and not yet taken (one goroutine: LIFO)
}

type deferred struct {
	fn    value
	args  []value
	instr *ssa.Defer
	tail  *deferred
}

type frame struct {
	i                *interpreter
	caller           *frame
	fn               *ssa.Function
	block, prevBlock *ssa.BasicBlock
	env              []value   // dynamic values of SSA variables, indexed by info.idx
	info             *funcInfo // value numbering of fn
	locals           []value
	defers           *deferred
	result           value
	panicking        bool
	panic            interface{}
	phitemps         []value // temporaries for parallel phi assignment
	depth            int     // number of interpreted frames below this one
}

func (fr *frame) get(key ssa.Value) value {
	switch key := key.(type) {
	case nil:
		// Hack; simplifies handling of optional attributes
		// such as ssa.Slice.{Low,High}.
		return nil
	case *ssa.Function, *ssa.Builtin:
		return key
	case *ssa.Const:
		return constValue(key)
	case *ssa.Global:
		if r, ok := fr.i.globals[key]; ok {
			return r
		}
		if fr.i.base != nil {
			if r, ok := fr.i.base.globals[key]; ok {
				return r
			}
		}
	}
	if ix, ok := fr.info.idx[key]; ok {
		if r := fr.env[ix]; r != nil {
			return r
		}
	}
	panic(fmt.Sprintf("get: no value for %T: %v", key, key.Name()))
}

// runDefer runs a deferred call d.
// It always returns normally, but may set or clear fr.panic.
func (fr *frame) runDefer(d *deferred) {
	if fr.i.mode&EnableTracing != 0 {
		fmt.Fprintf(os.Stderr, "%s: invoking deferred function call\n",
			fr.i.prog.Fset.Position(d.instr.Pos()))
	}
	var ok bool
	defer func() {
		if !ok {
			// Deferred call created a new state of panic.
			fr.panicking = true
			fr.panic = recover()
		}
	}()
	call(fr.i, fr, d.instr.Pos(), d.fn, d.args)
	ok = true
}

// runDefers executes fr's deferred function calls in LIFO order.
//
// On entry, fr.panicking indicates a state of panic; if
// true, fr.panic contains the panic value.
//
// On completion, if a deferred call started a panic, or if no
// deferred call recovered from a previous state of panic, then
// runDefers itself panics after the last deferred call has run.
//
// If there was no initial state of panic, or it was recovered from,
// runDefers returns normally.
func (fr *frame) runDefers() {
	for d := fr.defers; d != nil; d = d.tail {
		fr.runDefer(d)
	}
	fr.defers = nil
	if fr.panicking {
		panic(fr.panic) // new panic, or still panicking
	}
}

// lookupMethod returns the method set for type typ, which may be one
// of the interpreter's fake types.
func lookupMethod(i *interpreter, typ types.Type, meth *types.Func) *ssa.Function {
	switch typ {
	case rtypeType:
		return i.rtypeMethods[meth.Id()]
	case errorType:
		return i.errorMethods[meth.Id()]
	}
	return i.prog.LookupMethod(typ, meth.Pkg(), meth.Name())
}

// visitInstr interprets a single ssa.Instruction within the activation
// record frame.  It returns a continuation value indicating where to
// read the next instruction from.
func visitInstr(fr *frame, instr ssa.Instruction) continuation {
	fr.i.instrs++
	fr.i.curFrame, fr.i.curInstr = fr, instr
	if fr.i.eng != nil && fr.i.instrs > fr.i.eng.cfg.MaxInstr {
		panic(unsupported{"step budget exhausted"})
	}
	switch instr := instr.(type) {
	case *ssa.DebugRef:
		// no-op

	case *ssa.UnOp:
		fr.setv(instr, unop(instr, fr.get(instr.X)))

	case *ssa.BinOp:
		x, y := fr.get(instr.X), fr.get(instr.Y)
		if (instr.Op == token.QUO || instr.Op == token.REM) && fr.i.eng != nil {
			if sy, ok := y.(symv); ok && sy.K != types.Float64 {
				// implicit obligation: integer division by zero panics
				if fr.i.eng.decide(Eq(sy.T, konst(sy.T.Sort, 0))) {
					panic("runtime error: integer divide by zero")
				}
			}
		}
		fr.setv(instr, binop(instr.Op, instr.X.Type(), x, y))

	case *ssa.Call:
		fn, args := prepareCall(fr, &instr.Call)
		fr.put(instr, call(fr.i, fr, instr.Pos(), fn, args))

	case *ssa.ChangeInterface:
		fr.put(instr, fr.get(instr.X))

	case *ssa.ChangeType:
		fr.put(instr, fr.get(instr.X)) // (can't fail)

	case *ssa.Convert:
		x := fr.get(instr.X)
		if sv, ok := x.(symv); ok && isString(instr.Type()) {
			fr.setv(instr, fr.runeToString(sv))
		} else {
			if ss, isSym := x.(symStr); isSym {
				if sl, ok := instr.Type().Underlying().(*types.Slice); ok {
					if b, ok := sl.Elem().Underlying().(*types.Basic); ok && b.Kind() == types.Int32 {
						// string -> []rune: UTF-8 decoding of the (possibly symbolic) bytes, as ranging does
						it := &symStringIter{fr: fr, b: ss.B}
						var out []value
						for {
							t := it.next()
							if !t[0].(bool) {
								break
							}
							out = append(out, t[2])
						}
						fr.setv(instr, out)
						break
					}
				}
			}
			fr.setv(instr, conv(instr.Type(), instr.X.Type(), x))
		}

	case *ssa.SliceToArrayPointer:
		fr.put(instr, sliceToArrayPointer(instr.Type(), instr.X.Type(), fr.get(instr.X)))

	case *ssa.MakeInterface:
		fr.put(instr, iface{t: instr.X.Type(), v: fr.get(instr.X)})

	case *ssa.Extract:
		fr.put(instr, fr.get(instr.Tuple).(tuple)[instr.Index])

	case *ssa.Slice:
		fr.setv(instr, fr.slice(fr.get(instr.X), fr.get(instr.Low), fr.get(instr.High), fr.get(instr.Max)))

	case *ssa.Return:
		switch len(instr.Results) {
		case 0:
		case 1:
			fr.result = fr.get(instr.Results[0])
		default:
			var res []value
			for _, r := range instr.Results {
				res = append(res, fr.get(r))
			}
			fr.result = tuple(res)
		}
		fr.block = nil
		return kReturn

	case *ssa.RunDefers:
		fr.runDefers()

	case *ssa.Panic:
		panic(targetPanic{fr.get(instr.X)})

	case *ssa.Send:
		fr.get(instr.Chan).(chan value) <- fr.get(instr.X)

	case *ssa.Store:
		store(mustDeref(instr.Addr.Type()), fr.get(instr.Addr).(*value), fr.get(instr.Val))

	case *ssa.If:
		succ := 1
		cv := fr.get(instr.Cond)
		if sc, ok := cv.(symv); ok {
			// Fold "case a, b, c:" / "x == a || x == b" chains: successive blocks holding only
			// pure comparisons and an If to the same target become ONE decision on the
			// disjunction (dually for && chains with a common false target).
			hasPhi := func(b *ssa.BasicBlock) bool { _, ok := b.Instrs[0].(*ssa.Phi); return ok }
			pureBlock := func(b *ssa.BasicBlock) (*ssa.If, bool) {
				last, ok := b.Instrs[len(b.Instrs)-1].(*ssa.If)
				if !ok {
					return nil, false
				}
				for _, in := range b.Instrs[:len(b.Instrs)-1] {
					switch in := in.(type) {
					case *ssa.BinOp:
						if in.Op == token.QUO || in.Op == token.REM {
							return nil, false
						}
					case *ssa.DebugRef:
					default:
						return nil, false
					}
				}
				return last, true
			}
			evalBlock := func(b *ssa.BasicBlock, last *ssa.If) *Term {
				for _, in := range b.Instrs[:len(b.Instrs)-1] {
					if bo, ok := in.(*ssa.BinOp); ok {
						fr.put(bo, binop(bo.Op, bo.X.Type(), fr.get(bo.X), fr.get(bo.Y)))
					}
				}
				return boolTerm(fr.get(last.Cond))
			}
			// OR chain: common true target
			target := fr.block.Succs[0]
			cur, next := fr.block, fr.block.Succs[1]
			cond := sc.T
			merged := false
			for !hasPhi(target) && len(next.Preds) == 1 && next != target {
				last, ok := pureBlock(next)
				if !ok || next.Succs[0] != target {
					break
				}
				cond = Or(cond, evalBlock(next, last))
				cur, next = next, next.Succs[1]
				merged = true
			}
			if merged {
				if fr.i.eng.decide(cond) {
					fr.prevBlock, fr.block = cur, target
				} else {
					fr.prevBlock, fr.block = cur, next
				}
				return kJump
			}
			// AND chain: common false target
			target = fr.block.Succs[1]
			cur, next = fr.block, fr.block.Succs[0]
			cond = sc.T
			for !hasPhi(target) && len(next.Preds) == 1 && next != target {
				last, ok := pureBlock(next)
				if !ok || next.Succs[1] != target {
					break
				}
				cond = And(cond, evalBlock(next, last))
				cur, next = next, next.Succs[0]
				merged = true
			}
			if merged {
				if fr.i.eng.decide(cond) {
					fr.prevBlock, fr.block = cur, next
				} else {
					fr.prevBlock, fr.block = cur, target
				}
				return kJump
			}
		}
		if fr.truth(cv) {
			succ = 0
		}
		fr.prevBlock, fr.block = fr.block, fr.block.Succs[succ]
		return kJump

	case *ssa.Jump:
		fr.prevBlock, fr.block = fr.block, fr.block.Succs[0]
		return kJump

	case *ssa.Defer:
		fn, args := prepareCall(fr, &instr.Call)
		defers := &fr.defers
		if into := fr.get(instr.DeferStack); into != nil {
			defers = into.(**deferred)
		}
		*defers = &deferred{
			fn:    fn,
			args:  args,
			instr: instr,
			tail:  *defers,
		}

	case *ssa.Go:
		fn, args := prepareCall(fr, &instr.Call)
		atomic.AddInt32(&fr.i.goroutines, 1)
		go func() {
			call(fr.i, nil, instr.Pos(), fn, args)
			atomic.AddInt32(&fr.i.goroutines, -1)
		}()

	case *ssa.MakeChan:
		fr.put(instr, make(chan value, asInt64(fr.get(instr.Size))))

	case *ssa.Alloc:
		var addr *value
		if instr.Heap {
			// new
			addr = new(value)
			fr.put(instr, addr)
		} else {
			// local
			addr = fr.get(instr).(*value)
		}
		*addr = zero(mustDeref(instr.Type()))

	case *ssa.MakeSlice:
		capv := fr.concreteInt(fr.get(instr.Cap), "make cap")
		lenv := fr.concreteInt(fr.get(instr.Len), "make len")
		if capv < 0 || lenv < 0 || lenv > capv {
			panic("runtime error: makeslice: len out of range")
		}
		if capv > 1<<26 {
			unsup("make([]T, %d): too large for the engine", capv)
		}
		slice := make([]value, capv)
		tElt := instr.Type().Underlying().(*types.Slice).Elem()
		for i := range slice {
			slice[i] = zero(tElt)
		}
		fr.put(instr, slice[:lenv])

	case *ssa.MakeMap:
		var reserve int64
		if instr.Reserve != nil {
			reserve = asInt64(fr.get(instr.Reserve))
		}
		if !fitsInt(reserve, fr.i.sizes) {
			panic(fmt.Sprintf("ssa.MakeMap.Reserve value %d does not fit in int", reserve))
		}
		fr.put(instr, makeMap(instr.Type().Underlying().(*types.Map).Key(), reserve))

	case *ssa.Range:
		fr.put(instr, fr.rangeIter(fr.get(instr.X), instr.X.Type()))

	case *ssa.Next:
		fr.put(instr, fr.get(instr.Iter).(iter).next())

	case *ssa.FieldAddr:
		fr.put(instr, &(*fr.get(instr.X).(*value)).(structure)[instr.Field])

	case *ssa.Field:
		fr.put(instr, fr.get(instr.X).(structure)[instr.Field])

	case *ssa.IndexAddr:
		x := fr.get(instr.X)
		idx := fr.get(instr.Index)
		switch x := x.(type) {
		case []value:
			fr.put(instr, &x[fr.index(idx, len(x))])
		case *value: // *array
			a := (*x).(array)
			fr.put(instr, &a[fr.index(idx, len(a))])
		default:
			panic(fmt.Sprintf("unexpected x type in IndexAddr: %T", x))
		}

	case *ssa.Index:
		x := fr.get(instr.X)
		idx := fr.get(instr.Index)

		switch x := x.(type) {
		case array:
			fr.put(instr, x[fr.index(idx, len(x))])
		case symStr:
			fr.setv(instr, fr.strIndex(x.B, idx))
		case string:
			if _, ok := idx.(symv); ok {
				fr.setv(instr, fr.strIndex(strBytes(x), idx))
			} else {
				fr.put(instr, x[asInt64(idx)])
			}
		default:
			panic(fmt.Sprintf("unexpected x type in Index: %T", x))
		}

	case *ssa.Lookup:
		if m, ok := fr.get(instr.X).(map[value]value); ok && fr.i.eng != nil {
			fr.put(instr, fr.mapLookup(instr, m, fr.get(instr.Index)))
		} else {
			fr.put(instr, lookup(instr, fr.get(instr.X), fr.get(instr.Index)))
		}

	case *ssa.MapUpdate:
		m := fr.get(instr.Map)
		key := fr.get(instr.Key)
		v := fr.get(instr.Value)
		switch m := m.(type) {
		case map[value]value:
			if m == nil {
				panic("assignment to entry in nil map")
			}
			if fr.i.eng != nil {
				fr.mapUpdate(m, key, v)
			} else {
				m[key] = v
			}
		case *hashmap:
			m.insert(key.(hashable), v)
		default:
			panic(fmt.Sprintf("illegal map type: %T", m))
		}

	case *ssa.TypeAssert:
		fr.put(instr, typeAssert(fr.i, instr, fr.get(instr.X).(iface)))

	case *ssa.MakeClosure:
		var bindings []value
		for _, binding := range instr.Bindings {
			bindings = append(bindings, fr.get(binding))
		}
		fr.put(instr, &closure{instr.Fn.(*ssa.Function), bindings})

	case *ssa.Phi:
		log.Fatal("unreachable") // phis are processed at block entry

	case *ssa.Select:
		var cases []reflect.SelectCase
		if !instr.Blocking {
			cases = append(cases, reflect.SelectCase{
				Dir: reflect.SelectDefault,
			})
		}
		for _, state := range instr.States {
			var dir reflect.SelectDir
			if state.Dir == types.RecvOnly {
				dir = reflect.SelectRecv
			} else {
				dir = reflect.SelectSend
			}
			var send reflect.Value
			if state.Send != nil {
				send = reflect.ValueOf(fr.get(state.Send))
			}
			cases = append(cases, reflect.SelectCase{
				Dir:  dir,
				Chan: reflect.ValueOf(fr.get(state.Chan)),
				Send: send,
			})
		}
		chosen, recv, recvOk := reflect.Select(cases)
		if !instr.Blocking {
			chosen-- // default case should have index -1.
		}
		r := tuple{chosen, recvOk}
		for i, st := range instr.States {
			if st.Dir == types.RecvOnly {
				var v value
				if i == chosen && recvOk {
					// No need to copy since send makes an unaliased copy.
					v = recv.Interface().(value)
				} else {
					v = zero(st.Chan.Type().Underlying().(*types.Chan).Elem())
				}
				r = append(r, v)
			}
		}
		fr.put(instr, r)

	default:
		panic(fmt.Sprintf("unexpected instruction: %T", instr))
	}

	// if val, ok := instr.(ssa.Value); ok {
	// 	fmt.Println(toString(fr.env[val])) // debugging
	// }

	return kNext
}

// prepareCall determines the function value and argument values for a
// function call in a Call, Go or Defer instruction, performing
// interface method lookup if needed.
func prepareCall(fr *frame, call *ssa.CallCommon) (fn value, args []value) {
	v := fr.get(call.Value)
	if call.Method == nil {
		// Function call.
		fn = v
	} else {
		// Interface method invocation.
		recv := v.(iface)
		if recv.t == nil {
			panic("method invoked on nil interface")
		}
		if f := lookupMethod(fr.i, recv.t, call.Method); f == nil {
			// Unreachable in well-typed programs.
			panic(fmt.Sprintf("method set for dynamic type %v does not contain %s", recv.t, call.Method))
		} else {
			fn = f
		}
		args = append(args, recv.v)
	}
	for _, arg := range call.Args {
		args = append(args, fr.get(arg))
	}
	return
}

// call interprets a call to a function (function, builtin or closure)
// fn with arguments args, returning its result.
// callpos is the position of the callsite.
func call(i *interpreter, caller *frame, callpos token.Pos, fn value, args []value) value {
	switch fn := fn.(type) {
	case *ssa.Function:
		if fn == nil {
			panic("call of nil function") // nil of func type
		}
		return callSSA(i, caller, callpos, fn, args, nil)
	case *closure:
		return callSSA(i, caller, callpos, fn.Fn, args, fn.Env)
	case *ssa.Builtin:
		return callBuiltin(caller, callpos, fn, args)
	}
	panic(fmt.Sprintf("cannot call %T", fn))
}

func loc(fset *token.FileSet, pos token.Pos) string {
	if pos == token.NoPos {
		return ""
	}
	return " at " + fset.Position(pos).String()
}

// callSSA interprets a call to function fn with arguments args,
// and lexical environment env, returning its result.
// callpos is the position of the callsite.
// isHarnessFn reports whether f belongs to harness code (its calls are never redirected
// to summaries): functions whose outermost name starts with "VH" or "vh".
func isHarnessFn(f *ssa.Function) bool {
	for f.Parent() != nil {
		f = f.Parent()
	}
	n := f.Name()
	return len(n) > 2 && (n[:2] == "VH" || n[:2] == "vh")
}

func callSSA(i *interpreter, caller *frame, callpos token.Pos, fn *ssa.Function, args []value, env []value) value {
	if i.base != nil {
		if len(i.base.cfg.Intercept) > 0 {
			if sum, ok := i.base.cfg.Intercept[infoOf(fn).name]; ok && caller != nil && !isHarnessFn(caller.fn) {
				if sf := fn.Pkg.Func(sum); sf != nil {
					i.intercepted++
					return callSSA(i, caller, callpos, sf, args, nil)
				}
			}
		}
		if fn.Name() == "init" && fn.Pkg != nil && fn.Signature.Recv() == nil && fn.Synthetic != "" {
			if !i.base.cfg.InitAllow[fn.Pkg.Pkg.Path()] {
				return nil
			}
		}
	}
	if i.mode&EnableTracing != 0 {
		fset := fn.Prog.Fset
		// TODO(adonovan): fix: loc() lies for external functions.
		fmt.Fprintf(os.Stderr, "Entering %s%s.\n", fn, loc(fset, fn.Pos()))
		suffix := ""
		if caller != nil {
			suffix = ", resuming " + caller.fn.String() + loc(fset, callpos)
		}
		defer fmt.Fprintf(os.Stderr, "Leaving %s%s.\n", fn, suffix)
	}
	fr := &frame{
		i:      i,
		caller: caller, // for panic/recover
		fn:     fn,
	}
	if caller != nil {
		fr.depth = caller.depth + 1
		// the deepest legitimate nesting (recursion to jqawk's call-depth limit, JSON nested
		// to the decoder's limit) stays well below this; unbounded recursion in the code under
		// test must end the path, not the checker
		if fr.depth > 60000 && i.eng != nil {
			panic(unsupported{"step budget exhausted (interpreted call depth: unbounded recursion?)"})
		}
	}
	fi := infoOf(fn)
	if fn.Parent() == nil {
		if ext := fi.ext; ext != nil {
			// stock externals are concrete-only: with a symbolic argument interpret the real body
			if fi.sym || fn.Blocks == nil || i.eng == nil || !anySym(args) {
				return ext(fr, args)
			}
		}
		if fn.Blocks == nil {
			panic("no code for function: " + fi.name)
		}
	}

	// generic function body?
	if fn.TypeParams().Len() > 0 && len(fn.TypeArgs()) == 0 {
		panic("interp requires ssa.BuilderMode to include InstantiateGenerics to execute generics")
	}

	fr.info = fi
	fr.env = make([]value, fi.n)
	fr.block = fn.Blocks[0]
	fr.locals = make([]value, len(fn.Locals))
	for i, l := range fn.Locals {
		fr.locals[i] = zero(mustDeref(l.Type()))
		fr.put(l, &fr.locals[i])
	}
	for i, p := range fn.Params {
		fr.put(p, args[i])
	}
	for i, fv := range fn.FreeVars {
		fr.put(fv, env[i])
	}
	for fr.block != nil {
		runFrame(fr)
	}
	// Destroy the locals to avoid accidental use after return.
	for i := range fn.Locals {
		fr.locals[i] = bad{}
	}
	return fr.result
}

// runFrame executes SSA instructions starting at fr.block and
// continuing until a return, a panic, or a recovered panic.
//
// After a panic, runFrame panics.
//
// After a normal return, fr.result contains the result of the call
// and fr.block is nil.
//
// A recovered panic in a function without named return parameters
// (NRPs) becomes a normal return of the zero value of the function's
// result type.
//
// After a recovered panic in a function with NRPs, fr.result is
// undefined and fr.block contains the block at which to resume
// control.
func runFrame(fr *frame) {
	defer func() {
		if fr.block == nil {
			return // normal return
		}
		if fr.i.mode&DisableRecover != 0 {
			return // let interpreter crash
		}
		fr.panicking = true
		fr.panic = recover()
		if fr.i.mode&EnableTracing != 0 {
			fmt.Fprintf(os.Stderr, "Panicking: %T %v.\n", fr.panic, fr.panic)
		}
		fr.runDefers()
		fr.block = fr.fn.Recover
	}()

	for {
		if fr.i.mode&EnableTracing != 0 {
			fmt.Fprintf(os.Stderr, ".%s:\n", fr.block)
		}

		nonPhis := executePhis(fr)
		for _, instr := range nonPhis {
			if fr.i.mode&EnableTracing != 0 {
				if v, ok := instr.(ssa.Value); ok {
					fmt.Fprintln(os.Stderr, "\t", v.Name(), "=", instr)
				} else {
					fmt.Fprintln(os.Stderr, "\t", instr)
				}
			}
			if visitInstr(fr, instr) == kReturn {
				return
			}
			// Inv: kNext (continue) or kJump (last instr)
		}
	}
}

// executePhis executes the phi-nodes at the start of the current
// block and returns the non-phi instructions.
func executePhis(fr *frame) []ssa.Instruction {
	firstNonPhi := -1
	for i, instr := range fr.block.Instrs {
		if _, ok := instr.(*ssa.Phi); !ok {
			firstNonPhi = i
			break
		}
	}
	// Inv: 0 <= firstNonPhi; every block contains a non-phi.

	nonPhis := fr.block.Instrs[firstNonPhi:]
	if firstNonPhi > 0 {
		phis := fr.block.Instrs[:firstNonPhi]
		// Execute parallel assignment of phis.
		//
		// See "the swap problem" in Briggs et al's "Practical Improvements
		// to the Construction and Destruction of SSA Form" for discussion.
		predIndex := slices.Index(fr.block.Preds, fr.prevBlock)
		fr.phitemps = fr.phitemps[:0]
		for _, phi := range phis {
			phi := phi.(*ssa.Phi)
			if fr.i.mode&EnableTracing != 0 {
				fmt.Fprintln(os.Stderr, "\t", phi.Name(), "=", phi)
			}
			fr.phitemps = append(fr.phitemps, fr.get(phi.Edges[predIndex]))
		}
		for i, phi := range phis {
			fr.put(phi.(*ssa.Phi), fr.phitemps[i])
		}
	}
	return nonPhis
}

// doRecover implements the recover() built-in.
func doRecover(caller *frame) value {
	// recover() must be exactly one level beneath the deferred
	// function (two levels beneath the panicking function) to
	// have any effect.  Thus we ignore both "defer recover()" and
	// "defer f() -> g() -> recover()".
	if caller.i.mode&DisableRecover == 0 &&
		caller != nil && !caller.panicking &&
		caller.caller != nil && caller.caller.panicking {
		caller.caller.panicking = false
		p := caller.caller.panic
		caller.caller.panic = nil

		// TODO(adonovan): support runtime.Goexit.
		switch p := p.(type) {
		case targetPanic:
			// The target program explicitly called panic().
			return p.v
		case runtime.Error:
			// The interpreter encountered a runtime error.
			return iface{caller.i.runtimeErrorString, p.Error()}
		case string:
			// The interpreter explicitly called panic().
			return iface{caller.i.runtimeErrorString, p}
		default:
			panic(fmt.Sprintf("unexpected panic type %T in target call to recover()", p))
		}
	}
	return iface{}
}

// Interpret interprets the Go program whose main package is mainpkg.
// mode specifies various interpreter options.  filename and args are
// the initial values of os.Args for the target program.  sizes is the
// effective type-sizing function for this program.
//
// Interpret returns the exit code of the program: 2 for panic (like
// gc does), or the argument to os.Exit for normal termination.
//
// The SSA program must include the "runtime" package.
//
// Type parameterized functions must have been built with
// InstantiateGenerics in the ssa.BuilderMode to be interpreted.
func Interpret(mainpkg *ssa.Package, mode Mode, sizes types.Sizes, filename string, args []string) (exitCode int) {
	i := &interpreter{
		prog:       mainpkg.Prog,
		globals:    make(map[*ssa.Global]*value),
		mode:       mode,
		sizes:      sizes,
		goroutines: 1,
	}
	runtimePkg := i.prog.ImportedPackage("runtime")
	if runtimePkg == nil {
		panic("ssa.Program doesn't include runtime package")
	}
	i.runtimeErrorString = runtimePkg.Type("errorString").Object().Type()

	initReflect(i)

	i.osArgs = append(i.osArgs, filename)
	for _, arg := range args {
		i.osArgs = append(i.osArgs, arg)
	}

	for _, pkg := range i.prog.AllPackages() {
		// Initialize global storage.
		for _, m := range pkg.Members {
			switch v := m.(type) {
			case *ssa.Global:
				cell := zero(mustDeref(v.Type()))
				i.globals[v] = &cell
			}
		}
	}

	// Top-level error handler.
	exitCode = 2
	defer func() {
		if exitCode != 2 || i.mode&DisableRecover != 0 {
			return
		}
		switch p := recover().(type) {
		case exitPanic:
			exitCode = int(p)
			return
		case targetPanic:
			fmt.Fprintln(os.Stderr, "panic:", toString(p.v))
		case runtime.Error:
			fmt.Fprintln(os.Stderr, "panic:", p.Error())
		case string:
			fmt.Fprintln(os.Stderr, "panic:", p)
		default:
			fmt.Fprintf(os.Stderr, "panic: unexpected type: %T: %v\n", p, p)
		}

		// TODO(adonovan): dump panicking interpreter goroutine?
		// buf := make([]byte, 0x10000)
		// runtime.Stack(buf, false)
		// fmt.Fprintln(os.Stderr, string(buf))
		// (Or dump panicking target goroutine?)
	}()

	// Run!
	call(i, nil, token.NoPos, mainpkg.Func("init"), nil)
	if mainFn := mainpkg.Func("main"); mainFn != nil {
		call(i, nil, token.NoPos, mainFn, nil)
		exitCode = 0
	} else {
		fmt.Fprintln(os.Stderr, "No main function.")
		exitCode = 1
	}
	return
}
