package interp

// An in-memory model of the process environment for the command-line front end
// (cli.Run): argv, files, the three standard descriptors, exit. The real cli.Run and
// the real package flag are interpreted; only the calls that reach the operating system
// are modelled (DESIGN.md §0.6). vh.RunCLI is the entry point.

import (
	"fmt"
	"go/types"
	"sort"
	"strings"

	"golang.org/x/tools/go/ssa"
)

type osFile struct {
	name    string
	text    value  // readable text content (string / symStr), or nil
	off     int    // read offset into text
	stream  *value // readable DocStream (struct cell), or nil
	wbuf    []value
	woff    int // write offset into wbuf (a file opened without O_TRUNC starts with its old content)
	written bool
	ptr     *value // the fake *os.File
}

type osModel struct {
	texts   map[string]value
	data    map[string]*value
	byPtr   map[*value]*osFile
	created map[string]*osFile
	stdin   *osFile
	stdout  *osFile
	stderr  *osFile
}

func (i *interpreter) osFileType() types.Type {
	return types.NewPointer(i.prog.ImportedPackage("os").Type("File").Type())
}

// truncateOpen: the file is truncated to nothing; descriptors already open for reading
// on it find no more data.
func (m *osModel) truncateOpen(name string) {
	for _, f := range m.byPtr {
		if f.name == name && (f.stream != nil || f.text != nil) {
			f.stream = nil
			f.text = ""
			f.off = 0
		}
	}
}

func (m *osModel) newFile(name string) *osFile {
	cell := value(structure{(*value)(nil)})
	f := &osFile{name: name, ptr: &cell}
	m.byPtr[f.ptr] = f
	return f
}

func osGlobal(fr *frame, pkg, name string) *value {
	g := fr.i.prog.ImportedPackage(pkg).Var(name)
	if c, ok := fr.i.globals[g]; ok {
		return c
	}
	return fr.i.base.globals[g]
}

func (fr *frame) osm() *osModel {
	if fr.i.os == nil {
		unsup("operating-system call outside vh.RunCLI")
	}
	return fr.i.os
}

func (fr *frame) fileOf(recv value) *osFile {
	p, ok := recv.(*value)
	if !ok || p == nil {
		panic("runtime error: invalid memory address or nil pointer dereference (nil *os.File)")
	}
	f := fr.osm().byPtr[p]
	if f == nil {
		unsup("*os.File not created by the model")
	}
	return f
}

func pathError(fr *frame, op, name, msg string) value {
	return mkError(fr, op+" "+name+": "+msg)
}

func keyString(v value) string {
	s, ok := v.(string)
	if !ok {
		unsup("OS model: symbolic file name")
	}
	return s
}

// runCLI implements vh.RunCLI(run, proc).
func runCLI(fr *frame, args []value) value {
	i := fr.i
	if i.os != nil {
		unsup("nested vh.RunCLI")
	}
	proc := (*args[1].(*value)).(structure) // Proc{Args, Texts, Data, Stdin}
	m := &osModel{texts: map[string]value{}, data: map[string]*value{}, byPtr: map[*value]*osFile{}, created: map[string]*osFile{}}
	if t, ok := proc[1].(map[value]value); ok {
		for k, v := range t {
			m.texts[keyString(k)] = v
		}
	}
	if d, ok := proc[2].(map[value]value); ok {
		for k, v := range d {
			m.data[keyString(k)] = v.(*value)
		}
	}
	m.stdin, m.stdout, m.stderr = m.newFile("<stdin>"), m.newFile("<stdout>"), m.newFile("<stderr>")
	if sp, ok := proc[3].(*value); ok && sp != nil {
		m.stdin.stream = sp
	} else {
		m.stdin.text = ""
	}
	i.os = m
	defer func() { i.os = nil }()

	// argv, descriptors, a fresh flag set (exactly what a new process has)
	argv := []value{"jqawk"}
	if a, ok := proc[0].([]value); ok {
		argv = append(argv, a...)
	}
	*osGlobal(fr, "os", "Args") = argv
	*osGlobal(fr, "os", "Stdin") = m.stdin.ptr
	*osGlobal(fr, "os", "Stdout") = m.stdout.ptr
	*osGlobal(fr, "os", "Stderr") = m.stderr.ptr
	newFS := i.prog.ImportedPackage("flag").Func("NewFlagSet")
	*osGlobal(fr, "flag", "CommandLine") = call(i, fr, 0, newFS, []value{"jqawk", int(1)}) // flag.ExitOnError

	exit := 0
	func() {
		defer func() {
			if r := recover(); r != nil {
				if code, ok := r.(exitPanic); ok {
					exit = int(code)
					return
				}
				panic(r)
			}
		}()
		r := call(i, fr, 0, args[0], []value{"test"})
		exit = int(asInt64(r))
	}()

	written := map[value]value{}
	var names []string
	for n := range m.created {
		names = append(names, n)
	}
	sort.Strings(names)
	for _, n := range names {
		written[n] = normStr(m.created[n].wbuf)
	}
	return structure{normStr(m.stdout.wbuf), normStr(m.stderr.wbuf), exit, written}
}

func (f *osFile) write(p []value) {
	for _, b := range p {
		if f.woff < len(f.wbuf) {
			f.wbuf[f.woff] = b
		} else {
			f.wbuf = append(f.wbuf, b)
		}
		f.woff++
	}
	f.written = true
}

// formatTo implements fmt.Fprintf / Printf for the shapes the front end uses: literal
// text, %s with (possibly symbolic) strings, and other directives with concrete operands
// (formatted by the host one directive at a time).
func formatBytes(fr *frame, format string, parts []value) []value {
	var out []value
	argi := 0
	for k := 0; k < len(format); {
		if format[k] != '%' {
			out = append(out, format[k])
			k++
			continue
		}
		j := k + 1
		stars := 0
		for j < len(format) && strings.IndexByte("+-# 0123456789.*", format[j]) >= 0 {
			if format[j] == '*' {
				stars++
			}
			j++
		}
		if j >= len(format) {
			out = append(out, strBytes(format[k:])...)
			break
		}
		verb := format[j]
		dir := format[k : j+1]
		if verb == '%' {
			out = append(out, byte('%'))
			k = j + 1
			continue
		}
		n := stars + 1
		if argi+n > len(parts) {
			out = append(out, strBytes(fmt.Sprintf(dir))...)
			k = j + 1
			continue
		}
		ops := parts[argi : argi+n]
		argi += n
		if it, ok := ops[n-1].(iface); ok && verb == 's' && dir == "%s" {
			if ss, ok := it.v.(symStr); ok {
				out = append(out, ss.B...)
				k = j + 1
				continue
			}
		}
		if anySym(ops) {
			unsup("fmt: directive %q with a symbolic operand", dir)
		}
		out = append(out, strBytes(fmt.Sprintf(dir, hostArgs(fr, ops)...))...)
		k = j + 1
	}
	return out
}

// formatAny is formatBytes for a format that may hold symbolic bytes (program output
// handed to a Printf-like function as the FORMAT): each symbolic byte is decided to be a
// '%' or not; a '%' followed by a symbolic byte is "%%" or a bad verb without operands.
func formatAny(fr *frame, format value, parts []value) []value {
	switch f := format.(type) {
	case string:
		return formatBytes(fr, f, parts)
	case symStr:
		e := fr.eng()
		isByte := func(v value, c byte) bool {
			switch b := v.(type) {
			case byte:
				return b == c
			case symv:
				return e.decide(Eq(b.T, konst(b.T.Sort, uint64(c))))
			}
			return false
		}
		var out []value
		argi := 0
		for k := 0; k < len(f.B); k++ {
			if !isByte(f.B[k], '%') {
				out = append(out, f.B[k])
				continue
			}
			if k+1 >= len(f.B) {
				out = append(out, strBytes("%!(NOVERB)")...)
				break
			}
			// a directive made of concrete bytes: format it like formatBytes does
			j := k + 1
			conc := true
			for ; j < len(f.B); j++ {
				c, ok := f.B[j].(byte)
				if !ok {
					conc = false
					break
				}
				if strings.IndexByte("+-# 0123456789.*", c) < 0 {
					break
				}
			}
			if conc && j < len(f.B) {
				dir := make([]byte, 0, j-k+1)
				for _, b := range f.B[k : j+1] {
					dir = append(dir, b.(byte))
				}
				n := strings.Count(string(dir), "*") + 1
				if dir[len(dir)-1] == '%' {
					n = 0
				}
				lo := argi
				if lo > len(parts) {
					lo = len(parts)
				}
				rest := parts[lo:]
				if n < len(rest) {
					rest = rest[:n]
				}
				out = append(out, formatBytes(fr, string(dir), rest)...)
				argi += n
				k = j
				continue
			}
			if j >= len(f.B) {
				unsup("fmt: format ends inside a directive")
			}
			if j != k+1 {
				unsup("fmt: symbolic byte after directive flags")
			}
			if isByte(f.B[j], '%') {
				out = append(out, byte('%'))
				k = j
				continue
			}
			sb := f.B[j].(symv)
			flag := TFalse
			for _, c := range []byte("+-# 0123456789.*") {
				flag = Or(flag, Eq(sb.T, konst(sb.T.Sort, uint64(c))))
			}
			if e.decide(flag) {
				unsup("fmt: symbolic flag or width in a format")
			}
			if argi < len(parts) {
				unsup("fmt: symbolic verb with operands")
			}
			out = append(out, strBytes("%!")...)
			out = append(out, f.B[j])
			out = append(out, strBytes("(MISSING)")...)
			k = j
		}
		return out
	}
	unsup("fmt: format of type %T", format)
	return nil
}

func init() {
	reg(VHPath+".RunCLI", runCLI)
	reg("os.ReadFile", func(fr *frame, args []value) value {
		m := fr.osm()
		name := keyString(args[0])
		if t, ok := m.texts[name]; ok {
			return tuple{append([]value{}, strBytes(t)...), iface{}}
		}
		if d, ok := m.data[name]; ok {
			// a data file read whole: every Read of its stream until end of file
			st := append(structure{}, (*d).(structure)...)
			var cell value = st
			ds := iface{types.NewPointer(fr.i.prog.ImportedPackage(VHPath).Type("DocStream").Type()), &cell}
			var all []value
			for n := 0; n < 10000; n++ {
				buf := make([]value, 64)
				for i := range buf {
					buf[i] = byte(0)
				}
				res := callMethod(fr, ds, "Read", buf).(tuple)
				k := int(fr.concreteInt(res[0], "Read count"))
				all = append(all, buf[:k]...)
				if e, ok := res[1].(iface); ok && e.t != nil {
					if sameIface(e, ioEOF(fr)) {
						return tuple{all, iface{}}
					}
					return tuple{all, e}
				}
			}
			unsup("os.ReadFile: the stream does not end")
		}
		return tuple{[]value(nil), pathError(fr, "open", name, "no such file or directory")}
	})
	reg(VHPath+".StdoutLen", func(fr *frame, args []value) value { return len(fr.osm().stdout.wbuf) })
	reg("os.Open", func(fr *frame, args []value) value {
		m := fr.osm()
		name := keyString(args[0])
		if w, ok := m.created[name]; ok {
			// the file was created / truncated by this run: a reader sees what has been written so far
			f := m.newFile(name)
			f.text = normStr(w.wbuf)
			return tuple{f.ptr, iface{}}
		}
		if d, ok := m.data[name]; ok {
			// every open starts at the beginning of the file: a copy of the stream's state
			f := m.newFile(name)
			st := append(structure{}, (*d).(structure)...)
			var cell value = st
			f.stream = &cell
			return tuple{f.ptr, iface{}}
		}
		if t, ok := m.texts[name]; ok {
			f := m.newFile(name)
			f.text = t
			return tuple{f.ptr, iface{}}
		}
		return tuple{(*value)(nil), pathError(fr, "open", name, "no such file or directory")}
	})
	reg("os.Create", func(fr *frame, args []value) value {
		m := fr.osm()
		name := keyString(args[0])
		m.truncateOpen(name)
		f := m.newFile(name)
		m.created[name] = f
		return tuple{f.ptr, iface{}}
	})
	reg("os.OpenFile", func(fr *frame, args []value) value {
		// linux flag values; what matters: access mode, O_CREATE, O_EXCL, O_TRUNC, O_APPEND
		m := fr.osm()
		name := keyString(args[0])
		flag := int(fr.concreteInt(args[1], "os.OpenFile flag"))
		const oCreate, oExcl, oTrunc, oAppend = 0x40, 0x80, 0x200, 0x400
		if flag&3 == 0 {
			return call(fr.i, fr, 0, fr.i.prog.ImportedPackage("os").Func("Open"), []value{args[0]})
		}
		old, exists := m.texts[name]
		if prev, ok := m.created[name]; ok {
			old, exists = normStr(prev.wbuf), true
		}
		if _, isData := m.data[name]; isData {
			unsup("os.OpenFile for writing on an input data file")
		}
		switch {
		case !exists && flag&oCreate == 0:
			return tuple{(*value)(nil), pathError(fr, "open", name, "no such file or directory")}
		case exists && flag&oCreate != 0 && flag&oExcl != 0:
			return tuple{(*value)(nil), pathError(fr, "open", name, "file exists")}
		}
		if flag&oTrunc != 0 {
			m.truncateOpen(name)
		}
		f := m.newFile(name)
		if exists && flag&oTrunc == 0 {
			f.wbuf = append([]value{}, strBytes(old)...)
		}
		if flag&oAppend != 0 {
			f.woff = len(f.wbuf)
		}
		m.created[name] = f
		return tuple{f.ptr, iface{}}
	})
	reg("(*os.File).Read", func(fr *frame, args []value) value {
		f := fr.fileOf(args[0])
		p := args[1].([]value)
		if f.stream != nil {
			// the DocStream's own (interpreted) Read
			ds := iface{types.NewPointer(fr.i.prog.ImportedPackage(VHPath).Type("DocStream").Type()), f.stream}
			return callMethod(fr, ds, "Read", p)
		}
		if f.text == nil {
			return tuple{0, mkError(fr, "read "+f.name+": bad file descriptor")}
		}
		b := strBytes(f.text)
		if f.off >= len(b) {
			return tuple{0, ioEOF(fr)}
		}
		n := copy(p, b[f.off:])
		f.off += n
		return tuple{n, iface{}}
	})
	reg("(*os.File).Write", func(fr *frame, args []value) value {
		f := fr.fileOf(args[0])
		p := args[1].([]value)
		f.write(p)
		return tuple{len(p), iface{}}
	})
	reg("(*os.File).WriteString", func(fr *frame, args []value) value {
		f := fr.fileOf(args[0])
		b := strBytes(args[1])
		f.write(b)
		return tuple{len(b), iface{}}
	})
	reg("(*os.File).Close", func(fr *frame, args []value) value { fr.fileOf(args[0]); return iface{} })
	reg("(*os.File).Fd", func(fr *frame, args []value) value {
		f := fr.fileOf(args[0])
		switch f {
		case fr.osm().stdin:
			return uintptr(0)
		case fr.osm().stdout:
			return uintptr(1)
		case fr.osm().stderr:
			return uintptr(2)
		}
		return uintptr(3)
	})
	reg("github.com/mattn/go-isatty.IsTerminal", func(fr *frame, args []value) value { return false })
	reg("runtime/debug.ReadBuildInfo", func(fr *frame, args []value) value { return tuple{(*value)(nil), false} })
	stdoutW := func(fr *frame) value { return iface{fr.i.osFileType(), fr.osm().stdout.ptr} }
	reg("fmt.Print", func(fr *frame, args []value) value { return fprintTo(fr, stdoutW(fr), args[0].([]value), false) })
	reg("fmt.Println", func(fr *frame, args []value) value { return fprintTo(fr, stdoutW(fr), args[0].([]value), true) })
	reg("fmt.Printf", func(fr *frame, args []value) value {
		return writeTo(fr, stdoutW(fr), formatAny(fr, args[0], args[1].([]value)))
	})
}

var _ ssa.Value
