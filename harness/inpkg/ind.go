package lang

// In-package one-step harnesses (overlaid into package lang as zz_verif_ind.go; never
// written into /repo). The real evaluator code runs for ONE node (evalExprReal /
// evalStatementReal: the verbatim bodies of evalExpr / evalStatement, see
// rewrittenEvaluator in engine/cmd/symgo/load.go); every recursive evaluation of a
// child goes through the wrappers to the summaries below, which return an arbitrary
// outcome allowed by the invariant for the child's static context.
// One step from an arbitrary frame depth covers nestings and histories of any length,
// given the invariant (DESIGN.md §4 C01(c), C08, C11, C20).

import (
	"github.com/alligator/jqawk/zzverif/vh"
)

const (
	VhOK = iota
	VhRuntimeErr
	VhBreak
	VhContinue
	VhReturn
	VhNext
	VhExit
	VhOther     // anything else (a raw error): violates C01
	vhNOutcomes = VhExit + 1
)

const (
	vhValBool = iota // a value with symbolic truthiness
	vhValArray
	vhValFn
	vhValStr
)

type vhSlot struct {
	inLoop, inFn bool
	val          int
	name         string
}

type VhEvent struct {
	Slot    int
	Outcome int
	OutLen  int
	Depth   int // depth of the innermost frame when the child was evaluated
}

var (
	vhSlots  map[int]*vhSlot
	VhLog    []VhEvent
	vhBudget int
	vhOut    *vh.Out
	vhFnBody Statement
)

func vhItoa(i int) string {
	if i < 10 {
		return string(rune('0' + i))
	}
	return vhItoa(i/10) + string(rune('0'+i%10))
}

// placeholders: literal nodes identified by their token position
func vhExpr(id int) Expr          { return &ExprLiteral{token: Token{Tag: Null, Pos: id}} }
func vhStmt(id int) Statement     { return &StatementExpr{Expr: vhExpr(id)} }
func vhBlock(id int) Statement    { return &StatementBlock{token: Token{Pos: id}} } // a placeholder that is not an expression statement
func vhSlotDef(id int, s *vhSlot) { vhSlots[id] = s }
func vhIDOfExpr(e Expr) int {
	if l, ok := e.(*ExprLiteral); ok && l.token.Pos >= 1000 {
		return l.token.Pos
	}
	return -1
}

func vhErrOf(e *Evaluator, o int) error {
	switch o {
	case VhRuntimeErr:
		return e.error(Token{}, "summarised child failed")
	case VhBreak:
		return errBreak
	case VhContinue:
		return errContinue
	case VhReturn:
		return errReturn
	case VhNext:
		return errNext
	case VhExit:
		return errExit
	}
	return nil
}

// VhClassify maps an error returned by the evaluator to an outcome class.
func VhClassify(err error) int {
	switch err {
	case nil:
		return VhOK
	case errBreak:
		return VhBreak
	case errContinue:
		return VhContinue
	case errReturn:
		return VhReturn
	case errNext:
		return VhNext
	case errExit:
		return VhExit
	}
	if _, ok := err.(RuntimeError); ok {
		return VhRuntimeErr
	}
	return VhOther
}

// vhSummary picks the outcome of one summarised child evaluation.
func vhSummary(e *Evaluator, id int) int {
	slot := vhSlots[id]
	if slot == nil {
		panic("vh: summary reached with a node that is not a placeholder")
	}
	n := len(VhLog)
	if n >= vhBudget {
		// unwinding bound: a summarised loop condition could stay truthy forever
		VhLog = append(VhLog, VhEvent{id, VhExit, vhOut.Len(), e.stackTop.depth})
		return VhExit
	}
	o := vh.Choose("o"+vhItoa(n), vhNOutcomes)
	// the invariant: what a well-formed child can produce in its static context
	if (o == VhBreak || o == VhContinue) && !slot.inLoop {
		vh.Assume(false)
	}
	if o == VhReturn && !slot.inFn {
		vh.Assume(false)
	}
	VhLog = append(VhLog, VhEvent{id, o, vhOut.Len(), e.stackTop.depth})
	return o
}

func vhSumEvalExpr(e *Evaluator, expr Expr) (*Cell, error) {
	id := vhIDOfExpr(expr)
	if id < 0 {
		panic("vh: evalExpr summary reached with a real node")
	}
	n := len(VhLog)
	o := vhSummary(e, id)
	if o != VhOK {
		return nil, vhErrOf(e, o)
	}
	switch vhSlots[id].val {
	case vhValArray:
		return NewCell(NewValue([]interface{}{1.0, 2.0})), nil
	case vhValFn:
		fn := &ExprFunction{ident: Token{Tag: Ident, Pos: 0, Len: 1}, Args: []string{"p", "q"}, Body: vhFnBody}
		return NewCell(Value{Tag: ValueFn, Fn: fn}), nil
	case vhValStr:
		return NewCell(NewString("k")), nil
	}
	return NewCell(NewValue(vh.Bool("t" + vhItoa(n)))), nil
}

func vhSumEvalStatement(e *Evaluator, st Statement) error {
	id := -1
	switch x := st.(type) {
	case *StatementExpr:
		id = vhIDOfExpr(x.Expr)
	case *StatementBlock:
		if x.token.Pos >= 1000 && len(x.Body) == 0 {
			id = x.token.Pos
		}
	}
	if id < 0 {
		panic("vh: evalStatement summary reached with a real node")
	}
	return vhErrOf(e, vhSummary(e, id))
}

// VhStep describes one inductive step and what happened.
type VhStep struct {
	Kind        string
	InLoop      bool
	InFn        bool
	Result      int  // outcome class of the node
	FrameKept   bool // stackTop is the entry frame again
	DepthOK     bool
	OutLenAfter int
	Skipped     bool // node kind cannot occur in this context (parser guarantee)
	D           int  // the (symbolic) depth of the entry frame
	Limit       int  // the call depth limit
}

var VhNodeKinds = []string{
	"block", "print", "exprstmt", "return", "if", "ifelse", "while", "for", "forin", "break", "continue", "next", "exit",
	"unary!", "unary-", "unary++", "binary&&", "binary||", "binary+", "binary<", "binary=", "binary[]", "binary~",
	"call", "array", "object", "matchexpr", "matchblock", "matchnone", "rules",
}

// VhRunStep runs the real evaluator on one node of the given kind from an entry state
// with symbolic frame depth; children are summarised.
func VhRunStep(kind string, inLoop, inFn bool, budget int) VhStep {
	vhSlots = map[int]*vhSlot{}
	VhLog = nil
	vhBudget = budget
	out := &vh.Out{}
	vhOut = out
	lex := NewLexer("v w")
	ev := NewEvaluator(Program{}, &lex, out)
	d := vh.IntRange("d", 0, callDepthLimit)
	ev.stackTop = &stackFrame{name: "<entry>", locals: map[string]*Cell{}, depth: d, parent: ev.stackTop}
	entry := ev.stackTop
	ev.ruleRoot = NewCell(NewValue(nil))
	ev.root = ev.ruleRoot

	same := func(id int, val int) int { vhSlotDef(id, &vhSlot{inLoop, inFn, val, ""}); return id }
	loop := func(id int) int { vhSlotDef(id, &vhSlot{true, inFn, vhValBool, ""}); return id }
	step := VhStep{Kind: kind, InLoop: inLoop, InFn: inFn, D: d, Limit: callDepthLimit}
	identV := &ExprIdentifier{token: Token{Tag: Ident, Pos: 0, Len: 1}}
	identW := &ExprIdentifier{token: Token{Tag: Ident, Pos: 2, Len: 1}}
	tok := func(tag TokenTag) Token { return Token{Tag: tag} }

	var err error
	vhSummarise = true
	defer func() { vhSummarise = false }()
	runS := func(s Statement) { err = ev.evalStatementReal(s) }
	runE := func(x Expr) { _, err = ev.evalExprReal(x) }
	switch kind {
	case "block":
		runS(&StatementBlock{Body: []Statement{vhStmt(same(1001, 0)), vhStmt(same(1002, 0))}})
	case "print":
		runS(&StatementPrint{Args: []Expr{vhExpr(same(1001, 0)), vhExpr(same(1002, 0))}})
	case "exprstmt":
		runS(&StatementExpr{Expr: vhExpr(same(1001, 0))})
	case "return":
		if !inFn {
			step.Skipped = true // the parser rejects return outside a function
			return step
		}
		runS(&StatementReturn{Expr: vhExpr(same(1001, 0))})
	case "if":
		runS(&StatementIf{Expr: vhExpr(same(1001, 0)), Body: vhStmt(same(1002, 0))})
	case "ifelse":
		runS(&StatementIf{Expr: vhExpr(same(1001, 0)), Body: vhStmt(same(1002, 0)), ElseBody: vhStmt(same(1003, 0))})
	case "while":
		runS(&StatementWhile{Expr: vhExpr(same(1001, 0)), Body: vhStmt(loop(1002))})
	case "for":
		runS(&StatementFor{PreExpr: vhExpr(same(1001, 0)), Expr: vhExpr(same(1002, 0)), PostExpr: vhExpr(same(1003, 0)), Body: vhStmt(loop(1004))})
	case "forin":
		runS(&StatementForIn{Ident: identV, IndexIdent: identW, Iterable: vhExpr(same(1001, vhValArray)), Body: vhStmt(loop(1002))})
	case "break", "continue":
		if !inLoop {
			step.Skipped = true
			return step
		}
		if kind == "break" {
			runS(&StatementBreak{})
		} else {
			runS(&StatementContinue{})
		}
	case "next":
		runS(&StatementNext{})
	case "exit":
		runS(&StatementExit{})
	case "unary!":
		runE(&ExprUnary{Expr: vhExpr(same(1001, 0)), OpToken: tok(Bang)})
	case "unary-":
		runE(&ExprUnary{Expr: vhExpr(same(1001, 0)), OpToken: tok(Minus)})
	case "unary++":
		runE(&ExprUnary{Expr: vhExpr(same(1001, 0)), OpToken: tok(PlusPlus), Postfix: true})
	case "binary&&":
		runE(&ExprBinary{Left: vhExpr(same(1001, 0)), Right: vhExpr(same(1002, 0)), OpToken: tok(AmpAmp)})
	case "binary||":
		runE(&ExprBinary{Left: vhExpr(same(1001, 0)), Right: vhExpr(same(1002, 0)), OpToken: tok(PipePipe)})
	case "binary+":
		runE(&ExprBinary{Left: vhExpr(same(1001, 0)), Right: vhExpr(same(1002, 0)), OpToken: tok(Plus)})
	case "binary<":
		runE(&ExprBinary{Left: vhExpr(same(1001, 0)), Right: vhExpr(same(1002, 0)), OpToken: tok(LessThan)})
	case "binary=":
		runE(&ExprBinary{Left: vhExpr(same(1001, 0)), Right: vhExpr(same(1002, 0)), OpToken: tok(Equal)})
	case "binary[]":
		runE(&ExprBinary{Left: vhExpr(same(1001, vhValArray)), Right: vhExpr(same(1002, 0)), OpToken: tok(LSquare)})
	case "binary~":
		runE(&ExprBinary{Left: vhExpr(same(1001, vhValStr)), Right: vhExpr(same(1002, vhValStr)), OpToken: tok(Tilde)})
	case "call":
		vhSlotDef(1003, &vhSlot{false, true, vhValBool, "function body"})
		vhFnBody = vhStmt(1003)
		runE(&ExprCall{Func: vhExpr(same(1001, vhValFn)), Args: []Expr{vhExpr(same(1002, 0))}})
	case "array":
		runE(&ExprArray{Items: []Expr{vhExpr(same(1001, 0)), vhExpr(same(1002, 0))}})
	case "object":
		runE(&ExprObject{Items: []ObjectKeyValue{{"a", vhExpr(same(1001, 0))}, {"b", vhExpr(same(1002, 0))}}})
	case "matchexpr":
		runE(&ExprMatch{Value: vhExpr(same(1001, 0)), Cases: []MatchCase{{Exprs: []Expr{identV}, Body: &StatementExpr{Expr: vhExpr(same(1002, 0))}}}})
	case "matchblock":
		runE(&ExprMatch{Value: vhExpr(same(1001, 0)), Cases: []MatchCase{{Exprs: []Expr{identV}, Body: vhBlock(same(1002, 0))}}})
	case "matchnone":
		runE(&ExprMatch{Value: vhExpr(same(1001, vhValArray)), Cases: []MatchCase{{Exprs: []Expr{&ExprArray{Items: []Expr{identV}}}, Body: vhBlock(same(1002, 0))}}})
	case "rules":
		if inLoop || inFn {
			step.Skipped = true // rules are top-level
			return step
		}
		rules := []*Rule{{Kind: PatternRule, Pattern: vhExpr(same(1001, 0)), Body: vhStmt(same(1002, 0))}, {Kind: PatternRule, Body: vhStmt(same(1003, 0))}}
		err = ev.evalRules(rules)
	default:
		panic("vh: unknown node kind " + kind)
	}
	step.Result = VhClassify(err)
	step.FrameKept = ev.stackTop == entry
	step.OutLenAfter = out.Len()
	return step
}

// VhCallDepth: the real callFunction from a frame of symbolic depth d.
// Returns (d, outcome class, depth seen by the body or -1).
func VhCallDepth() (int, int, int, bool) {
	vhSlots = map[int]*vhSlot{}
	VhLog = nil
	vhBudget = 4
	out := &vh.Out{}
	vhOut = out
	lex := NewLexer("v w")
	ev := NewEvaluator(Program{}, &lex, out)
	d := vh.IntRange("d", 0, callDepthLimit)
	ev.stackTop = &stackFrame{name: "<entry>", locals: map[string]*Cell{}, depth: d, parent: ev.stackTop}
	entry := ev.stackTop
	seen := -1
	fn := &ExprFunction{ident: Token{Tag: Ident, Pos: 0, Len: 1}, Args: []string{"p"}, Body: &StatementBlock{}}
	_ = seen
	cell := NewCell(Value{Tag: ValueFn, Fn: fn})
	call := &ExprCall{Func: &ExprIdentifier{token: Token{Tag: Ident, Pos: 0, Len: 1}}}
	vhSummarise = false
	_, err := ev.callFunction(call, cell, nil)
	return d, VhClassify(err), callDepthLimit, ev.stackTop == entry
}
