// Package vh is the harness API. The same harness source is executed symbolically by
// symgo (which intercepts these functions by name before their bodies run) and
// compiled natively for replay, where the bodies below read the replay file.
//
// Rules for harness code: never branch on a symbolic value (no if / && / || on
// symbols) — build conditions with And/Or/Not/Implies/OneOf/InRange and hand them to
// Assume/Assert; compare doubles with SameFloat.
package vh

import (
	"encoding/json"
	"fmt"
	"io"
	"math"
	"os"
	"strconv"
	"strings"
)

// ---- replay state (native build only) ----

type replayFile struct {
	Harness string            `json:"harness"`
	Values  map[string]string `json:"values"` // symbol -> decimal uint64
	Thor    bool              `json:"thorough"`
}

var (
	replay    replayFile
	loaded    bool
	Failures  []string
	Reached   []string
	Observed  []string
	AssumeBad bool
)

func Load(path string) error {
	b, err := os.ReadFile(path)
	if err != nil {
		return err
	}
	if err := json.Unmarshal(b, &replay); err != nil {
		return err
	}
	loaded = true
	return nil
}

func raw(name string) uint64 {
	s, ok := replay.Values[name]
	if !ok {
		return 0
	}
	u, _ := strconv.ParseUint(s, 10, 64)
	return u
}

// ---- nondeterministic inputs ----

func Byte(name string) byte     { return byte(raw(name)) }
func Bool(name string) bool     { return raw(name) != 0 }
func Int(name string) int       { return int(raw(name)) }
func Float(name string) float64 { return math.Float64frombits(raw(name)) }
func Choose(name string, n int) int {
	v := int(raw(name))
	if v < 0 || v >= n {
		AssumeBad = true
		return 0
	}
	return v
}

// IntRange is a symbolic int constrained to lo <= x <= hi (not forked).
func IntRange(name string, lo, hi int) int {
	v := int(raw(name))
	if v < lo || v > hi {
		AssumeBad = true
		return lo
	}
	return v
}

// FloatFrom is a value drawn from a small finite list (symbolic selector).
func FloatFrom(name string, list []float64) float64 {
	i := int(raw(name))
	if i < 0 || i >= len(list) {
		AssumeBad = true
		return list[0]
	}
	return list[i]
}

// IntFrom is an int drawn from a small finite list (symbolic selector).
func IntFrom(name string, list []int) int {
	i := int(raw(name))
	if i < 0 || i >= len(list) {
		AssumeBad = true
		return list[0]
	}
	return list[i]
}

// ByteFrom is a byte drawn from a small set (symbolic selector; see FloatFrom).
func ByteFrom(name string, set string) byte {
	i := int(raw(name))
	if i < 0 || i >= len(set) {
		AssumeBad = true
		return set[0]
	}
	return set[i]
}

// Bytes is a string of n symbolic bytes named name_0 .. name_{n-1}.
func Bytes(name string, n int) string {
	b := make([]byte, n)
	for i := range b {
		b[i] = byte(raw(fmt.Sprintf("%s_%d", name, i)))
	}
	return string(b)
}

// ---- non-branching logic ----

func And(a, b bool) bool     { return a && b }
func Or(a, b bool) bool      { return a || b }
func Not(a bool) bool        { return !a }
func Implies(a, b bool) bool { return !a || b }
func Iff(a, b bool) bool     { return a == b }

func OneOf(b byte, set string) bool { return strings.IndexByte(set, b) >= 0 }
func InRange(b, lo, hi byte) bool   { return lo <= b && b <= hi }
func IntIn(x, lo, hi int) bool      { return lo <= x && x <= hi }
func EqStr(a, b string) bool        { return a == b }
func IsFinite(f float64) bool       { return !math.IsNaN(f) && !math.IsInf(f, 0) }
func IsNaN(f float64) bool          { return f != f }
func IteFloat(c bool, a, b float64) float64 {
	if c {
		return a
	}
	return b
}
func IteInt(c bool, a, b int) int {
	if c {
		return a
	}
	return b
}
func IteBool(c bool, a, b bool) bool {
	if c {
		return a
	}
	return b
}

// SameFloat: identical doubles (same bits, all NaNs identified). Term identity is
// discharged before the solver.
func SameFloat(a, b float64) bool {
	if a != a && b != b {
		return true
	}
	return math.Float64bits(a) == math.Float64bits(b)
}

// FloatEq is IEEE equality (NaN != NaN, +0 == -0) without branching.
func FloatEq(a, b float64) bool { return a == b }
func FloatLt(a, b float64) bool { return a < b }

// ---- assumptions, obligations, markers ----

func Assume(c bool) {
	if !c {
		AssumeBad = true
	}
}

// Natively the first failing assertion ends the harness (the replayed model is the one
// that falsifies it; what follows would run on a state the symbolic path never had).
func Assert(c bool, label string) {
	if !c {
		Failures = append(Failures, label)
		panic(Stop{})
	}
}

// Stop is the panic value that ends a native harness run after a failed assertion.
type Stop struct{}

// Run executes a harness natively, absorbing Stop.
func Run(f func()) {
	defer func() {
		if r := recover(); r != nil {
			if _, ok := r.(Stop); ok {
				return
			}
			panic(r)
		}
	}()
	f()
}

// Reach marks that a path got here (anti-vacuity).
func Reach(label string) { Reached = append(Reached, label) }

// Observe records a concrete observation of this path for conformance replay: under
// symgo the string must be concrete on the path; natively it is printed.
func Observe(s string) { Observed = append(Observed, s) }

// Thorough reports whether the check runs in the thorough tier (harnesses widen their
// bounds there).
func Thorough() bool { return replay.Thor }

// MapOrders switches exploration of Go's map iteration order: 0 = canonical order,
// 1 = every range over a map iterates forward or in reverse, one symbolic direction per
// call of MapOrders(1) (call it before each run), 2 = every range over a map with >= 2
// entries draws its own order from a symbolic permutation. Natively it is a no-op (the
// runtime's own randomisation applies).
func MapOrders(mode int) {}

// Repeats is how often a comparison of two runs is repeated natively when the difference
// depends on Go's randomised map order (which cannot be forced from outside); under
// symgo the order is a symbolic permutation and one comparison suffices, so it returns 1.
func Repeats(native int) int { return native }

// Concrete forces a small symbolic int to a concrete value by forking.
func Concrete(x int) int { return x }

// ---- output sink ----

type Out struct{ B []byte }

func (o *Out) Write(p []byte) (int, error) {
	o.B = append(o.B, p...)
	return len(p), nil
}
func (o *Out) String() string { return string(o.B) }
func (o *Out) Len() int       { return len(o.B) }

// Finish prints the replay verdict and returns the process exit code.
func Finish() int {
	for _, o := range Observed {
		fmt.Println("OBSERVE " + strconv.Quote(o))
	}
	for _, r := range Reached {
		fmt.Println("REACH " + r)
	}
	if AssumeBad {
		fmt.Println("ASSUME-FAIL")
		return 4
	}
	if len(Failures) > 0 {
		for _, f := range Failures {
			fmt.Println("ASSERT-FAIL " + f)
		}
		return 3
	}
	fmt.Println("REPLAY-OK")
	return 0
}

// ---- JSON input streams ----

// Fault kinds for DocStream items.
const (
	Garbage    = 1 // non-JSON text between values
	StrayClose = 2 // a stray ']' or '}' between values
	Truncated  = 3 // a value cut off by end of input
	ReadErr    = 4 // the reader fails with an I/O error at this point
)

// Fault is a DocStream item that is not a complete JSON value.
type Fault struct {
	Kind int
	Text string // bytes to emit (Garbage / StrayClose / Truncated)
}

// DocStream is an io.Reader producing a sequence of JSON values and faults. Natively
// it serialises the items; under symgo Read is an intrinsic that hands the items over
// as opaque markers in the buffer, and encoding/json's Decoder is replaced by a
// contract-level model that pulls them through the reader it was given — including any
// wrapper jqawk puts around it, whose code is interpreted for real (DESIGN.md §2.6). So
// the values may carry symbolic leaves, and how data and errors are packed into Read
// calls is part of the model:
//
//	Mode 0: one item per Read; end of input / an I/O error arrives in a call of its own
//	Mode 1: the last item arrives together with io.EOF (n > 0 and err != nil in one call)
//	Mode 2: two items per Read where available
//	Mode 3: an injected I/O error arrives together with the data of the item before it
type DocStream struct {
	Items  []any
	OnRead func(item int) // called when the reader is asked for item i (i == len(Items): end of input)
	Mode   int
	pos    int
}

type ioError struct{}

func (ioError) Error() string { return "injected read error" }

var ErrInjected error = ioError{}

func (d *DocStream) isReadErr(i int) bool {
	if i >= len(d.Items) {
		return false
	}
	f, ok := d.Items[i].(Fault)
	return ok && f.Kind == ReadErr
}

func (d *DocStream) Read(p []byte) (int, error) {
	if d.OnRead != nil {
		d.OnRead(d.pos)
	}
	if d.pos >= len(d.Items) {
		return 0, eof
	}
	if d.isReadErr(d.pos) {
		d.pos++
		return 0, ErrInjected
	}
	var b []byte
	take := 1
	if d.Mode == 2 && d.pos+1 < len(d.Items) && !d.isReadErr(d.pos+1) {
		take = 2
	}
	for k := 0; k < take; k++ {
		it := d.Items[d.pos]
		d.pos++
		if f, ok := it.(Fault); ok {
			b = append(b, []byte(f.Text+"\n")...)
		} else {
			jb, err := json.Marshal(it)
			if err != nil {
				return 0, err
			}
			b = append(append(b, jb...), '\n')
		}
	}
	if len(b) > len(p) {
		panic("vh.DocStream: items larger than the read buffer")
	}
	n := copy(p, b)
	if d.Mode == 1 && d.pos >= len(d.Items) {
		return n, eof
	}
	if d.Mode == 3 && d.isReadErr(d.pos) {
		d.pos++
		return n, ErrInjected
	}
	return n, nil
}

var eof = io.EOF
