package ext

import (
	"github.com/alligator/jqawk/zzverif/vh"
)

// C07: control flow executes statements in the documented order at any nesting. A
// skeleton (nesting of constructs with print tags threaded through and one guarded
// jump statement) is rendered as a jqawk program and interpreted by the direct-style
// reference below on the same symbolic conditions and loop bounds.

const (
	cIf = iota
	cIfElse
	cWhile
	cFor
	cForInArr
	cForInArr2
	cForInObj
	cForInStr
	cBlock
	cElseIf // if / else if / else if / else with traced conditions
	cDangle // if (c1) if (c2) { body } else { e }  - no braces around the inner if: the else is the inner if's
	nConstructs
)

const (
	jNone = iota
	jBreak
	jContinue
	jReturn
	jNext
	jExit
	nJumps
)

const (
	sigNone = iota
	sigBreak
	sigContinue
	sigReturn
	sigNext
	sigExit
)

type c07Ctx struct {
	doc   map[string]any
	nsym  int
	nvar  int
	inFn  bool
	out   string // reference output
	prog  string
	conds map[string]bool
	bnds  map[string]int
}

func (c *c07Ctx) cond() (string, bool) {
	c.nsym++
	name := "c" + itoa(c.nsym)
	b := vh.Bool(name)
	c.doc[name] = b
	return name, b
}

func (c *c07Ctx) bound() (string, int) {
	c.nsym++
	name := "n" + itoa(c.nsym)
	n := vh.IntFrom(name, []int{0, 1, 2})
	c.doc[name] = float64(n)
	return name, n
}

// c07Node is a construct with a body; the innermost body holds the jump.
type c07Node struct {
	kind  int
	inner *c07Node // nested construct inside the body (nil: the jump site)
	jump  int
	id    string
	cname string
	cval  bool
	nname string
	nval  int
	jname string
	jval  bool
	loopv string
	// else-if chain: three conditions; the body of the node is the second branch
	chain  [3]string
	chainv [3]bool
}

func loopKind(k int) bool { return k >= cWhile && k <= cForInStr }

// render writes the program text of the node.
func (n *c07Node) render() string {
	body := "print 'a" + n.id + "'; "
	if n.inner != nil {
		body += n.inner.render()
	} else {
		switch n.jump {
		case jBreak:
			body += "if ($." + n.jname + ") break; "
		case jContinue:
			body += "if ($." + n.jname + ") continue; "
		case jReturn:
			body += "if ($." + n.jname + ") return 7; "
		case jNext:
			body += "if ($." + n.jname + ") next; "
		case jExit:
			body += "if ($." + n.jname + ") exit; "
		}
	}
	body += "print 'b" + n.id + "'"
	v := n.loopv
	switch n.kind {
	case cIf:
		return "if (t('" + n.cname + "', $." + n.cname + ")) { " + body + " } print 'z" + n.id + "'; "
	case cIfElse:
		return "if (t('" + n.cname + "', $." + n.cname + ")) { " + body + " } else { print 'e" + n.id + "' } print 'z" + n.id + "'; "
	case cDangle:
		c := n.chain
		return "if (t('" + c[0] + "', $." + c[0] + ")) if (t('" + c[1] + "', $." + c[1] + ")) { " + body + " } else { print 'e" + n.id + "' } print 'z" + n.id + "'; "
	case cElseIf:
		c := n.chain
		return "if (t('" + c[0] + "', $." + c[0] + ")) { print 'first" + n.id + "' } else if (t('" + c[1] + "', $." + c[1] + ")) { " + body +
			" } else if (t('" + c[2] + "', $." + c[2] + ")) { print 'third" + n.id + "' } else { print 'e" + n.id + "' } print 'z" + n.id + "'; "
	case cWhile:
		return v + " = 0; while (" + v + " < $." + n.nname + ") { " + v + "++; " + body + " } print 'z" + n.id + "'; "
	case cFor:
		return "for (" + v + " = 0; " + v + " < $." + n.nname + "; " + v + " = p('post" + n.id + "', " + v + " + 1)) { " + body + " } print 'z" + n.id + "', " + v + "; "
	case cForInArr:
		return "for (" + v + " in $.arr" + n.coll() + ") { print " + v + "; " + body + " } print 'z" + n.id + "'; "
	case cForInArr2:
		return "for (" + v + ", " + v + "i in $.arr" + n.coll() + ") { print " + v + ", " + v + "i; " + body + " } print 'z" + n.id + "'; "
	case cForInObj:
		return "for (" + v + ", " + v + "v in $.obj" + n.coll() + ") { print " + v + ", " + v + "v; " + body + " } print 'z" + n.id + "'; "
	case cForInStr:
		return "for (" + v + ", " + v + "i in $.str" + n.coll() + ") { print " + v + ", " + v + "i; " + body + " } print 'z" + n.id + "'; "
	}
	return "{ " + body + " } print 'z" + n.id + "'; "
}

// every nesting level iterates collections of its own, the inner ones larger than the
// outer ones (an iteration must not be disturbed by another one running inside it)
var c07Arrs = [][]string{{"p", "q"}, {"r", "s", "t"}, {"p", "q"}}
var c07ObjKeyss = [][]string{{"ka", "kb"}, {"ja", "jb", "jc"}, {"ka", "kb"}} // iterated in sorted order
var c07ObjValss = [][]string{{"va", "vb"}, {"wa", "wb", "wc"}, {"va", "vb"}}
var c07Strs = []string{"x\u00e9", "u\u00f1w", "x\u00e9"} // multi-byte characters: the second loop variable is the byte offset

func (n *c07Node) lvl() int { return int(n.id[0]-'1') % 3 }

// coll is the suffix of the collection names of the node's level ("" / "2" / "").
func (n *c07Node) coll() string {
	if n.lvl() == 1 {
		return "2"
	}
	return ""
}

// body runs the body of n once; returns the signal.
func (n *c07Node) body(c *c07Ctx) int {
	c.out += "a" + n.id + "\n"
	if n.inner != nil {
		if s := n.inner.exec(c); s != sigNone {
			return s
		}
	} else if n.jump != jNone && n.jval {
		return n.jump // jump kinds and signal kinds share their numbering
	}
	c.out += "b" + n.id + "\n"
	return sigNone
}

// exec is the reference semantics of one construct.
func (n *c07Node) exec(c *c07Ctx) int {
	loop := func(iters int, pre func(i int)) (int, int) {
		done := 0
		for i := 0; i < iters; i++ {
			if pre != nil {
				pre(i)
			}
			s := n.body(c)
			done++
			if s == sigBreak {
				return sigNone, done - 1 // post-expression not run after break
			}
			if s != sigNone && s != sigContinue {
				return s, done // nor after return / next / exit
			}
			if n.kind == cFor {
				c.out += "post" + n.id + "\n" // after each completed or continued iteration
			}
		}
		return sigNone, done
	}
	switch n.kind {
	case cIf:
		c.out += n.cname + "\n"
		if n.cval {
			if s := n.body(c); s != sigNone {
				return s
			}
		}
	case cDangle:
		c.out += n.chain[0] + "\n"
		if n.chainv[0] {
			c.out += n.chain[1] + "\n"
			if n.chainv[1] {
				if s := n.body(c); s != sigNone {
					return s
				}
			} else {
				c.out += "e" + n.id + "\n"
			}
		}
	case cElseIf:
		// every condition is evaluated at most once, in order, until one holds
		c.out += n.chain[0] + "\n"
		if n.chainv[0] {
			c.out += "first" + n.id + "\n"
		} else {
			c.out += n.chain[1] + "\n"
			if n.chainv[1] {
				if s := n.body(c); s != sigNone {
					return s
				}
			} else {
				c.out += n.chain[2] + "\n"
				if n.chainv[2] {
					c.out += "third" + n.id + "\n"
				} else {
					c.out += "e" + n.id + "\n"
				}
			}
		}
	case cIfElse:
		c.out += n.cname + "\n"
		if n.cval {
			if s := n.body(c); s != sigNone {
				return s
			}
		} else {
			c.out += "e" + n.id + "\n"
		}
	case cWhile:
		if s, _ := loop(n.nval, nil); s != sigNone {
			return s
		}
	case cFor:
		s, post := loop(n.nval, nil)
		if s != sigNone {
			return s
		}
		c.out += "z" + n.id + " " + itoa(post) + "\n"
		return sigNone
	case cForInArr:
		if s, _ := loop(len(c07Arrs[n.lvl()]), func(i int) { c.out += c07Arrs[n.lvl()][i] + "\n" }); s != sigNone {
			return s
		}
	case cForInArr2:
		if s, _ := loop(len(c07Arrs[n.lvl()]), func(i int) { c.out += c07Arrs[n.lvl()][i] + " " + itoa(i) + "\n" }); s != sigNone {
			return s
		}
	case cForInObj:
		if s, _ := loop(len(c07ObjKeyss[n.lvl()]), func(i int) { c.out += c07ObjKeyss[n.lvl()][i] + " " + c07ObjValss[n.lvl()][i] + "\n" }); s != sigNone {
			return s
		}
	case cForInStr:
		var chars []string
		var offs []int
		for o, r := range c07Strs[n.lvl()] {
			chars, offs = append(chars, string(r)), append(offs, o)
		}
		if s, _ := loop(len(chars), func(i int) { c.out += chars[i] + " " + itoa(offs[i]) + "\n" }); s != sigNone {
			return s
		}
	case cBlock:
		if s := n.body(c); s != sigNone {
			return s
		}
	}
	c.out += "z" + n.id + "\n"
	return sigNone
}

// the traced condition / post-expression functions run loops of their own (over an object,
// an array and a string) while the caller's loops are in progress
const c07Traced = "function t(n, v) { for (tk, tv in $.obj2) { tq = tk } for (te in $.arr2) { tq = te } print n; return v }\n" +
	"function p(n, v) { for (pk in $.obj2) { pq = pk } for (pc in $.str2) { pq = pc } print n; return v }\n"

func c07Build(c *c07Ctx, depth int, level int, name string) *c07Node {
	n := &c07Node{kind: vh.Choose(name+"kind", nConstructs), id: itoa(level)}
	c.nvar++
	n.loopv = "v" + itoa(c.nvar)
	switch n.kind {
	case cElseIf, cDangle:
		for i := range n.chain {
			n.chain[i], n.chainv[i] = c.cond()
		}
	case cIf, cIfElse:
		n.cname, n.cval = c.cond()
	case cWhile, cFor:
		n.nname, n.nval = c.bound()
	}
	if depth > 1 {
		n.inner = c07Build(c, depth-1, level+1, name+"i")
	}
	return n
}

func (n *c07Node) anyLoop() bool {
	for x := n; x != nil; x = x.inner {
		if loopKind(x.kind) {
			return true
		}
	}
	return false
}

func (n *c07Node) innermost() *c07Node {
	x := n
	for x.inner != nil {
		x = x.inner
	}
	return x
}

// VHC07Nesting: every nesting of two (thorough: three) constructs, one guarded jump of
// every kind at the innermost position, at rule level and inside a function.
func VHC07Nesting() {
	c := &c07Ctx{doc: map[string]any{
		"arr": []any{"p", "q"}, "obj": map[string]any{"kb": "vb", "ka": "va"}, "str": c07Strs[0],
		"arr2": []any{"r", "s", "t"}, "obj2": map[string]any{"jc": "wc", "jb": "wb", "ja": "wa"}, "str2": c07Strs[1],
	}}
	depth := 2
	if vh.Thorough() {
		depth = 2 + vh.Choose("depth3", 2)
	}
	root := c07Build(c, depth, 1, "k")
	in := root.innermost()
	in.jump = vh.Choose("jump", nJumps)
	ctx := vh.Choose("infn", 4) // 0 a pattern rule, 1 a function called from it, 2 an ENDFILE rule, 3 a BEGINFILE rule
	c.inFn = ctx == 1
	if in.jump != jNone {
		in.jname, in.jval = c.cond()
	}
	// static context rules of the language: break/continue need an enclosing loop,
	// return an enclosing function (otherwise the program is a syntax error: C11)
	if (in.jump == jBreak || in.jump == jContinue) && !root.anyLoop() {
		return
	}
	if in.jump == jReturn && !c.inFn {
		return
	}
	text := root.render()
	var prog string
	if ctx >= 2 {
		// the construct sits in a BEGINFILE / ENDFILE rule of a stream of two values: next
		// ends that rule only, exit ends the whole run (no further rule, value or END)
		kw := []string{"ENDFILE", "BEGINFILE"}[ctx-2]
		prog = c07Traced + kw + " { print 's'; " + text + "print 't' }\n" + kw + " { print 'second rule' }\nEND { print 'end' }"
		got, k := runProg(prog, c.doc, c.doc)
		c.out = ""
		for v := 0; v < 2; v++ {
			c.out += "s\n"
			sig := root.exec(c)
			if sig == sigExit {
				break
			}
			if sig == sigNone {
				c.out += "t\n"
			}
			c.out += "second rule\n"
			if v == 1 {
				c.out += "end\n"
			}
		}
		vh.Reach("program evaluated")
		vh.Assert(k == OK, "C07: a structured program runs without error")
		vh.Assert(got == c.out, "C07: statements execute in the documented order (in a "+kw+" rule)")
		return
	}
	if c.inFn {
		prog = c07Traced + "function f() { print 'f'; " + text + "print 'g'; return 1 }\n{ print 's'; r = f(); print 't', r }\n{ print 'second rule' }\nEND { print 'end' }"
	} else {
		prog = c07Traced + "{ print 's'; " + text + "print 't' }\n{ print 'second rule' }\nEND { print 'end' }"
	}
	got, k := runProg(prog, c.doc)

	// reference
	c.out = "s\n"
	sig := sigNone
	if c.inFn {
		c.out += "f\n"
		sig = root.exec(c)
		if sig == sigNone {
			c.out += "g\nt 1\n"
		} else if sig == sigReturn {
			c.out += "t 7\n"
			sig = sigNone
		}
	} else {
		sig = root.exec(c)
		if sig == sigNone {
			c.out += "t\n"
		}
	}
	switch sig {
	case sigNone:
		c.out += "second rule\nend\n"
	case sigNext:
		c.out += "end\n"
	case sigExit:
	}
	vh.Reach("program evaluated")
	vh.Assert(k == OK, "C07: a structured program runs without error")
	vh.Assert(got == c.out, "C07: statements execute in the documented order")
}
