package ext

import (
	"strings"

	lang "github.com/alligator/jqawk/src"
	"github.com/alligator/jqawk/zzverif/vh"
)

// VHC20Index: for every double outside the accepted window an index read or write is
// an error or a defined value and never grows the array.
func VHC20Index() {
	i := vh.Float("i")
	vh.Assume(vh.IsFinite(i))
	side := vh.Choose("side", 2)
	if side == 0 {
		vh.Assume(vh.Not(vh.FloatLt(i, 1048577))) // i >= 2^20 + 1: truncates to an index beyond the fill limit
	} else {
		vh.Assume(vh.Not(vh.FloatLt(-4, i))) // i <= -4: truncates to an index before the start of a 3-element array
	}
	write := vh.Choose("write", 2) == 1
	prog := "{ x = $.arr[$.i] }\nEND { print 'end' }"
	if write {
		prog = "{ $.arr[$.i] = 1; print 'stored' }\nEND { print 'end' }"
		switch vh.Choose("target", 4) {
		case 1: // the array is created by the assignment itself
			prog = "{ $.fresh[$.i] = 1; print 'stored' }\nEND { print 'end' }"
		case 2:
			prog = "{ v.b[$.i] = 1; print 'stored' }\nEND { print 'end' }"
		case 3:
			prog = "{ w[0][$.i] = 1; print 'stored' }\nEND { print 'end' }"
		}
		if side == 0 && vh.Choose("grown", 2) == 1 {
			// the array was already extended close to the limit by an earlier (allowed) store
			prog = "{ $.arr[1000000] = 0; $.arr[$.i] = 1; print 'stored' }\nEND { print 'end' }"
		}
	}
	doc := map[string]any{"arr": []any{1.0, 2.0, 3.0}, "i": i}
	var out vh.Out
	ev, err := lang.EvalProgram(prog, []lang.InputFile{{Name: "f", Reader: &vh.DocStream{Items: []any{doc}}}}, nil, &out, false)
	k := legal(err, "EvalProgram")
	vh.Reach("index evaluated")
	if write {
		vh.Assert(k == ErrRuntime && out.String() == "", "C20: a store far outside the array is refused with a runtime error")
	} else {
		vh.Assert(k == ErrRuntime || (k == OK && out.String() == "end\n"), "C20: a read far outside the array is an error or a defined value")
	}
	_ = ev
}

var c20Programs = [][3]string{
	// program, expected outcome ("ok"/"err"), expected output prefix
	{"function f(n) { if (n == 0) return 0\nreturn 1 + f(n - 1) }\nBEGIN { print f(1000) }", "ok", "1000\n"},
	{"function f(n) { if (n == 0) return 0\nreturn 1 + f(n - 1) }\nBEGIN { print f(4000) }", "ok", "4000\n"},
	{"function f(n) { return f(n + 1) }\nBEGIN { print 'start'; f(0); print 'never' }", "err", "start\n"},
	{"function a(n) { return b(n + 1) }\nfunction b(n) { return a(n + 1) }\nBEGIN { print 'start'; a(0); print 'never' }", "err", "start\n"},
	{"function f(n) { return match (n) { z => f(n + 1) } }\nBEGIN { print 'start'; f(0); print 'never' }", "err", "start\n"},
	{"function f(n) { x = match (n) { z => { return f(n + 1) } } }\nBEGIN { print 'start'; f(0); print 'never' }", "err", "start\n"},
	{"BEGIN { a = []; a[1048577] = 1; print 'never' }", "err", ""},
	{"BEGIN { a = [1]; print a[0 - 2] }", "err", ""},
	{"BEGIN { a = []; a[1000] = 1; print a.length() }", "ok", "1001\n"},
	{"BEGIN { printf('%3000s|', 'x'); print 'ok' }", "ok", strings.Repeat(" ", 2999) + "x|ok\n"},
	{"BEGIN { printf('%65536s|', 'x'); print 'ok' }", "ok", strings.Repeat(" ", 65535) + "x|ok\n"},
	{"BEGIN { printf('%-65536v|', 'x'); print 'ok' }", "ok", "x" + strings.Repeat(" ", 65535) + "|ok\n"},
	{"BEGIN { printf('%065535f|', 1); print 'ok' }", "ok", strings.Repeat("0", 65534) + "1|ok\n"},
	{"BEGIN { print 'start'; printf('%65537s', 'x'); print 'never' }", "err", "start\n"},
	{"BEGIN { print 'start'; printf('%-65537s', 'x'); print 'never' }", "err", "start\n"},
	{"BEGIN { a = []; a[1048576] = 1; print a.length() }", "ok", "1048577\n"},
	{"BEGIN { print 'start'; printf('%-1000000s', 'x'); print 'never' }", "err", "start\n"},
}

// VHC20Boundaries: concrete boundary witnesses run inside the engine and natively:
// everything up to a limit works, beyond it an ordinary runtime error, prior output kept.
func VHC20Boundaries() {
	c := c20Programs[vh.Choose("case", len(c20Programs))]
	if vh.Choose("afterfuzz", 2) == 1 {
		// the limits are the same after an evaluation in fuzzing mode (which has limits of its own)
		var sink vh.Out
		_, _ = lang.EvalProgram("function f(n) { if (n > 0) return f(n - 1)\nreturn 0 }\nBEGIN { x = f(3) }", nil, nil, &sink, true)
	}
	out, k := runProg(c[0], map[string]any{})
	vh.Reach("boundary program evaluated")
	if c[1] == "ok" {
		vh.Assert(k == OK && out == c[2], "C20: within the limit it works: "+lbl(c[0]))
	} else {
		vh.Assert(k == ErrRuntime, "C20: beyond the limit an ordinary runtime error: "+lbl(c[0]))
		vh.Assert(out == c[2], "C20: output before the limit is hit is kept, nothing after: "+lbl(c[0]))
	}
}

// VHC20Nesting: JSON input nested beyond the decoder's limit is a JSON input error
// (the limit itself is encoding/json's: concrete witness through the real decoder).
func VHC20Nesting() {
	depth := []int{100, 4200, 9000, 10001, 20000}[vh.Choose("depth", 5)]
	in := strings.Repeat("[", depth) + strings.Repeat("]", depth)
	var out vh.Out
	// whatever is accepted is usable in full: counted, printed and written as JSON
	prog := "BEGINFILE { print json($).length() > 2 * " + itoa(depth) + "; print $ }"
	if depth > 4200 {
		// rendering is quadratic in the depth (every level is checked against its ancestors
		// for cycles): beyond the call-depth limit's neighbourhood the value is only counted
		prog = "{ n++ }\nEND { print n }"
	}
	_, err := lang.EvalProgram(prog, []lang.InputFile{{Name: "deep", Reader: strings.NewReader(in)}}, nil, &out, false)
	k := legal(err, "EvalProgram")
	vh.Reach("nested input evaluated")
	if k == OK && depth <= 4200 {
		o := out.String()
		head := "true\n"
		vh.Assert(len(o) > len(head) && o[:len(head)] == head, "C20: an accepted deeply nested value serialises with every level")
		vh.Assert(strings.Count(o, "[") == depth && strings.Count(o, "]") == depth, "C20: an accepted deeply nested value prints with every level")
	}
	vh.Assert(k == OK || k == ErrJSON, "C20: deeply nested input is processed or refused with a JSON input error, never a crash")
	if depth <= 9000 {
		vh.Assert(k == OK, "C20: input nested a few thousand levels deep is accepted")
	}
	if depth > 10000 {
		vh.Assert(k == ErrJSON, "C20: input nested beyond the decoder's limit is a JSON input error")
	}
}
