package ext

import (
	"github.com/alligator/jqawk/zzverif/vh"
	"strings"
)

// VHC08Binding: arguments bind by position (missing = null, surplus ignored), scalars
// by value; return value or null; parameters, locals and match bindings vanish; globals
// persist.
func VHC08Binding() {
	arity := vh.Choose("arity", 4)
	nargs := vh.Choose("nargs", 5)
	params := []string{"p0", "p1", "p2"}[:arity]
	// argument values: symbolic one-byte strings
	doc := map[string]any{}
	args := ""
	var vals []string // what each argument evaluates to ("" = null)
	var forms []int   // 0 an existing member, 1 a missing member, 2 a variable
	pre, post, postWant := "", "", ""
	reassign := false
	for i := 0; i < nargs; i++ {
		s := vh.Bytes("a"+itoa(i), 1)
		vh.Assume(vh.InRange(s[0], 'j', 'm'))
		doc["a"+itoa(i)] = s
		form := vh.Choose("form"+itoa(i), 3)
		forms = append(forms, form)
		if i > 0 {
			args += ", "
		}
		is := itoa(i)
		switch form {
		case 0:
			args += "$.a" + is
			vals = append(vals, s)
			post += "print 'a" + is + "', $.a" + is + "\n"
			postWant += "a" + is + " " + s + "\n"
		case 1:
			args += "$.m" + is
			vals = append(vals, "")
			post += "print 'm" + is + "', $.m" + is + ", $.m" + is + " is null\n"
			postWant += "m" + is + " null true\n"
		case 2:
			pre += "v" + is + " = $.a" + is + "\n"
			if i == 1 && forms[0] == 2 && vh.Choose("reassign", 2) == 1 {
				// a later argument expression assigns the variable passed before it
				reassign = true
				args += "v0 = 'N'"
				vals = append(vals, "N")
				break
			}
			args += "v" + is
			vals = append(vals, s)
			post += "print 'v" + is + "', v" + is + "\n"
			postWant += "v" + is + " " + s + "\n"
		}
	}
	if reassign {
		postWant = strings.Replace(postWant, "v0 "+vals[0]+"\n", "v0 N\n", 1)
	}
	plist := ""
	body := ""
	for i, p := range params {
		if i > 0 {
			plist += ", "
		}
		plist += p
		body += "print '" + p + "', " + p + "\n" + p + " = 'changed'\n"
	}
	// where the parameters are read and written: directly in the function body, or inside a
	// match-case body / a loop body within it (frames or scopes stacked on the call's own)
	switch vh.Choose("nested", 3) {
	case 1:
		body = "xx = match (1) { zz => {\n" + body + "} }\n"
	case 2:
		body = "for (qq in [1]) {\n" + body + "}\n"
	}
	// globals with the parameters' names exist already: the parameters shadow them
	shadow := vh.Choose("shadow", 2) == 1
	pcheck := "print p0 is unknown, p1 is unknown, p2 is unknown"
	if shadow {
		pre = "p0 = 'GP0'; p1 = 'GP1'; p2 = 'GP2'; zz = 'GZZ'\n" + pre
		pcheck = "print p0, p1, p2, zz"
	}
	retKind := vh.Choose("ret", 5)
	ret := ""
	switch retKind {
	case 1:
		ret = "return 'r'"
	case 2:
		ret = "return"
	case 3:
		ret = "for (q in [1, 2]) { if (q == 2) { x = match (q) { z => { return 'deep' } } } }"
	case 4:
		ret = "for (ix = 0; ix < 3; ix++) { if (ix == 1) return ix }" // the value of ix at the return, not after another step
	}
	// a nested call that completed with a return value must not leak into f's own result
	prog := "function h() { return 'H' }\nfunction f(" + plist + ") {\n" + body + "local = 'L'\nglob = 'G'\ntmp = h()\nfor (lv in ['x', 'y']) { tmp2 = lv }\n" + ret + "\nprint 'fell off', tmp\n}\n" +
		"{ glob = 'g0'\nx0 = $.a0\ngz = 'GZ'\nmz = match (5) { gz => gz + 1 }\nlv = 'GL'\n" + pre + "r = f(" + args + ")\nprint 'r', r\nprint 'glob', glob\nprint local is unknown, z is unknown, q is unknown\n" + pcheck + "\nprint 'x0', x0, $.a0\nprint gz, mz, lv\n" + post + "}"
	out, k := runProg(prog, doc)
	want := ""
	for i, p := range params {
		if i < nargs && vals[i] != "" {
			want += p + " " + vals[i] + "\n"
		} else {
			want += p + " null\n"
		}
	}
	switch retKind {
	case 0:
		want += "fell off H\nr null\n"
	case 1:
		want += "r r\n"
	case 2:
		want += "r null\n"
	case 3:
		want += "r deep\n"
	case 4:
		want += "r 1\n"
	}
	want += "glob G\ntrue true true\n"
	if shadow {
		want += "GP0 GP1 GP2 GZZ\n" // untouched by the call, whether or not a parameter or a pattern had the name
	} else {
		want += "true true true\n"
	}
	if nargs > 0 {
		a0 := doc["a0"].(string)
		want += "x0 " + a0 + " " + a0 + "\n"
	} else {
		want += "x0 null null\n"
	}
	want += "GZ 6 y\n" // (lv: a for-in inside the function whose variable is an existing global assigns that global)
	_ = 0              // a pattern name spelled like an existing variable of the same scope shadows it for the case only
	want += postWant
	vh.Reach("call evaluated")
	vh.Assert(k == OK, "C08: a call with any argument count succeeds")
	vh.Assert(out == want, "C08: arguments bind by position and value; parameters, locals and pattern names vanish; globals persist")
}

var c08Recursion = [][2]string{
	{"function fact(n) { if (n <= 1) return 1\nreturn n * fact(n - 1) }\nBEGIN { print fact(10) }", "3628800\n"},
	{"function ev(n) { if (n == 0) return true\nreturn od(n - 1) }\nfunction od(n) { if (n == 0) return false\nreturn ev(n - 1) }\nBEGIN { print ev(10), ev(7) }", "true false\n"},
	{"function f(n) { return match (n) { 0 => 0, z => 1 + f(n - 1) } }\nBEGIN { print f(20) }", "20\n"},
	{"function g(a) { a.push(1)\nreturn a.length() }\nBEGIN { x = [5]; print g(x), g(x) }", "2 2\n"},
	{"function h(n) { n = n + 1\nreturn n }\nBEGIN { v = 1; print h(v), v, h(h(v)) }", "2 1 3\n"},
	{"function k() { return }\nBEGIN { print k() is null, k(1, 2, 3) is null }", "true true\n"},
	{"function e() { exit }\nBEGIN { print 'a'; e(); print 'b' }\nEND { print 'end' }", "a\n"},
	{"function n() { next }\n{ print 'a'; n(); print 'b' }\n{ print 'c' }", "a\n"},
	{"function double(x) { return x * 2 }\nfunction record(x) { total = total + double(x) }\nBEGIN { total = 0; r = record(3); print r is null, total }", "true 6\n"},
	{"function a() { return 1 }\nfunction b() { a()\nreturn }\nfunction c() { b() }\nBEGIN { print b() is null, c() is null }", "true true\n"},
	{"function g() { return 5 }\nfunction w() { x = match (1) { z => g() } }\nBEGIN { print w() is null }", "true\n"},
}

// VHC08Recursion: recursion, mutual recursion, recursion through match bodies,
// containers shared / scalars copied into parameters, exit and next inside functions.
func VHC08Recursion() {
	c := c08Recursion[vh.Choose("case", len(c08Recursion))]
	out, k := runProg(c[0], map[string]any{})
	vh.Reach("recursion evaluated")
	vh.Assert(k == OK && out == c[1], "C08: "+lbl(c[0]))
}

var c08History = []string{
	"{ x = match ($) { z => 1 } }",
	"{ x = match ($) { z => { y = 1 } } }",
	"function f() { next }\n{ f() }",
	"function f() { return 1 }\n{ f() }",
	"{ i = 0; while (i < 1) { i++; x = match (1) { z => { continue } } } }",
	"{ for (q in [1]) { x = match (1) { z => { break } } } }",
	"function f() { for (q in [1]) { x = match (q) { z => { return 1 } } } }\n{ f() }",
	"function f() { return [1][0 - 5] }\n{ x = match (1) { 2 => f(), z => 0 } }",
	// next raised inside a function that is called from a rule PATTERN, from BEGINFILE, from ENDFILE
	"function f() { next }\nf() { print 'never' }",
	"function f(x) { if (x) next\nreturn 1 }\n$ && f($) && 0 { print 'never' }",
	"function f() { next }\nBEGINFILE { f() }",
	"function f() { next }\nENDFILE { f() }",
	"function f() { exit }\nfunction g() { return 1 }\n{ g() }\nEND { g() }",
}

// VHC08History: the number of completed calls / matches / next statements executed so
// far never changes later behaviour: a long input does not run into the depth limit.
func VHC08History() {
	p := c08History[vh.Choose("prog", len(c08History))]
	n := 5000
	arr := make([]any, n)
	for i := range arr {
		arr[i] = 1.0
	}
	var out string
	var k int
	if vh.Choose("stream", 2) == 1 {
		out, k = runProg(p+"\nEND { print 'done' }", arr...) // 5000 values, each with its own BEGINFILE / ENDFILE
	} else {
		out, k = runProg(p+"\nEND { print 'done' }", arr) // one array of 5000 elements
	}
	vh.Reach("history evaluated")
	vh.Assert(k == OK, "C08: thousands of completed calls / matches / next statements must not exhaust the call depth: "+lbl(p))
	vh.Assert(out == "done\n", "C08: the run completes normally: "+lbl(p))
}
