package interp

// The standard-library boundary. Each stub is exact on concrete arguments (it calls the
// host function) and either has an exact symbolic model or abandons the path as
// unsupported. See DESIGN.md §2.6; every stub is part of every claim.

import (
	"fmt"
	"go/token"
	"go/types"
	"math"
	"regexp"
	"strconv"
	"strings"

	"golang.org/x/tools/go/ssa"
)

// symAware lists externals that accept symbolic arguments themselves. Other externals
// are bypassed (the real SSA body is interpreted) when an argument is symbolic.
var symAware = map[string]bool{}

func reg(name string, f externalFn) {
	externals[name] = f
	symAware[name] = true
}

func anySym(args []value) bool {
	for _, a := range args {
		switch x := a.(type) {
		case symv, symStr:
			return true
		case []value:
			for _, e := range x {
				if isSym(e) {
					return true
				}
				if it, ok := e.(iface); ok && isSym(it.v) {
					return true
				}
			}
		case iface:
			if isSym(x.v) {
				return true
			}
		}
	}
	return false
}

// callMethod invokes the named method of an interface value through the interpreter.
func callMethod(fr *frame, itf iface, name string, args ...value) value {
	ms := fr.i.prog.MethodSets.MethodSet(itf.t)
	sel := ms.Lookup(nil, name)
	if sel == nil {
		unsup("no method %s on %s", name, itf.t)
	}
	f := fr.i.prog.MethodValue(sel)
	if f == nil {
		unsup("abstract method %s on %s", name, itf.t)
	}
	return call(fr.i, fr, 0, f, append([]value{itf.v}, args...))
}

// hostArg converts an interface-typed interp value to a host value for fmt.
// Symbolic scalars/strings become placeholders (only used for message texts, which
// are never an oracle).
func hostArg(fr *frame, v value) any {
	if itf, ok := v.(iface); ok {
		if itf.t == nil {
			return nil
		}
		ms := fr.i.prog.MethodSets.MethodSet(itf.t)
		for _, name := range []string{"Error", "String"} {
			if sel := ms.Lookup(nil, name); sel != nil {
				if f := fr.i.prog.MethodValue(sel); f != nil {
					r := call(fr.i, fr, 0, f, []value{itf.v})
					if s, ok := r.(string); ok {
						return s
					}
					if _, ok := r.(symStr); ok {
						return "<symbolic>"
					}
				}
			}
		}
		return hostArg(fr, itf.v)
	}
	switch x := v.(type) {
	case string, int, int64, float64, bool, byte, rune, uint, uint64, int8, int16, uint16, uint32:
		return x
	case symStr:
		return "<symbolic>"
	case symv:
		switch x.K {
		case types.Float64:
			return 0.0
		case types.Bool:
			return false
		case types.Uint8:
			return byte('?')
		case types.Int32:
			return rune('?')
		}
		return 0
	}
	return toString(v)
}

func hostArgs(fr *frame, v value) []any {
	xs := v.([]value)
	out := make([]any, len(xs))
	for i, x := range xs {
		out[i] = hostArg(fr, x)
	}
	return out
}

func mkError(fr *frame, msg string) value {
	f := fr.i.prog.ImportedPackage("errors").Func("New")
	return call(fr.i, fr, 0, f, []value{msg})
}

// fprintTo formats like fmt.Fprint/Fprintln for the argument shapes jqawk uses and
// hands the bytes to the writer's own Write method (interpreted).
func fprintTo(fr *frame, w value, parts []value, ln bool) value {
	var bytes []value
	allStr := true
	for _, p := range parts {
		it, ok := p.(iface)
		if !ok {
			allStr = false
			break
		}
		switch it.v.(type) {
		case string, symStr:
		default:
			allStr = false
		}
	}
	if allStr {
		for i, p := range parts {
			if ln && i > 0 {
				bytes = append(bytes, byte(' '))
			}
			bytes = append(bytes, strBytes(p.(iface).v)...)
		}
		if ln {
			bytes = append(bytes, byte('\n'))
		}
	} else {
		if anySym(parts) {
			unsup("fmt.Fprint with a symbolic non-string operand")
		}
		var s string
		if ln {
			s = fmt.Sprintln(hostArgs(fr, parts)...)
		} else {
			s = fmt.Sprint(hostArgs(fr, parts)...)
		}
		bytes = strBytes(s)
	}
	return writeTo(fr, w, bytes)
}

func writeTo(fr *frame, w value, bytes []value) value {
	itf := w.(iface)
	if itf.t == nil {
		panic("runtime error: invalid memory address or nil pointer dereference (nil io.Writer)")
	}
	r := callMethod(fr, itf, "Write", bytes)
	return r
}

func builderBuf(args []value) *value {
	st := (*args[0].(*value)).(structure)
	return &st[1]
}

// parseFloatSym models strconv.ParseFloat(s, 64) on a string with symbolic bytes.
// Exact for the shapes "digits" and "digits.digits" with <= 15 significant digits
// (value = n / 10^k, one correctly rounded division, exact operands: Clinger's case);
// strings holding a byte outside ParseFloat's alphabet are rejected; every other shape
// abandons the path as unsupported.
func parseFloatSym(fr *frame, b []value) value {
	e := fr.eng()
	n := len(b)
	synErr := func() value { return tuple{0.0, mkError(fr, "strconv.ParseFloat: parsing <symbolic>: invalid syntax")} }
	if n == 0 {
		return synErr()
	}
	isDigit := func(v value) *Term { return inRange8(bv8(v), '0', '9') }
	digitVal := func(v value) *Term { return Resize(BVBin("bvsub", bv8(v), BVConst('0', 8)), 64, false) }
	allDigitsExcept := func(skip int) *Term {
		t := TTrue
		for i := range b {
			if i == skip {
				continue
			}
			t = And(t, isDigit(b[i]))
		}
		return t
	}
	mant := func(skip int) *Term {
		acc := BVConst(0, 64)
		for i := range b {
			if i == skip {
				continue
			}
			acc = BVBin("bvadd", BVBin("bvmul", acc, BVConst(10, 64)), digitVal(b[i]))
		}
		return acc
	}
	// With few symbolic bytes the value is an exact table: every digit assignment is
	// evaluated by the host's strconv.ParseFloat (no solver arithmetic at all).
	var symPos []int
	for i := range b {
		if _, ok := b[i].(uint8); !ok {
			symPos = append(symPos, i)
		}
	}
	table := func(dot int) *Term {
		buf := make([]byte, n)
		for i := range b {
			if c, ok := b[i].(uint8); ok {
				buf[i] = c
			}
		}
		if dot >= 0 {
			buf[dot] = '.'
		}
		var pos []int
		for _, p := range symPos {
			if p != dot {
				pos = append(pos, p)
			}
		}
		var build func(k int) *Term
		build = func(k int) *Term {
			if k == len(pos) {
				f, _ := strconv.ParseFloat(string(buf), 64)
				return FPConst(f)
			}
			p := pos[k]
			buf[p] = '9'
			res := build(k + 1)
			for d := byte('8'); d >= '0'; d-- {
				buf[p] = d
				res = Ite(Eq(bv8(b[p]), BVConst(uint64(d), 8)), build(k+1), res)
			}
			return res
		}
		return build(0)
	}
	useTable := len(symPos) <= 3
	if (n <= 15 || useTable) && e.decide(allDigitsExcept(-1)) {
		if useTable {
			return tuple{mkVal(table(-1), types.Float64), iface{}}
		}
		return tuple{mkVal(FPFromInt(mant(-1), false), types.Float64), iface{}}
	}
	if n <= 16 || useTable {
		for j := 0; j < n; j++ {
			dot := Eq(bv8(b[j]), BVConst('.', 8))
			if e.decide(And(dot, allDigitsExcept(j))) {
				if n == 1 {
					return synErr()
				}
				if useTable {
					return tuple{mkVal(table(j), types.Float64), iface{}}
				}
				k := n - 1 - j
				m := FPFromInt(mant(j), false)
				if k == 0 {
					return tuple{mkVal(m, types.Float64), iface{}}
				}
				return tuple{mkVal(FPBin("fp.div", m, FPConst(math.Pow10(k))), types.Float64), iface{}}
			}
		}
	}
	// a byte outside the accepted alphabet makes the string invalid
	const alphabet = "0123456789+-.eEpPxX_iInNfFtTyYaA"
	outside := TFalse
	for i := range b {
		in := TFalse
		for k := 0; k < len(alphabet); k++ {
			in = Or(in, Eq(bv8(b[i]), BVConst(uint64(alphabet[k]), 8)))
		}
		outside = Or(outside, Not(in))
	}
	if e.decide(outside) {
		return synErr()
	}
	// only digits and dots left, and the shapes with zero or one dot were handled above:
	// two or more dots are a syntax error
	if n <= 15 || useTable {
		digitsDots := TTrue
		for i := range b {
			digitsDots = And(digitsDots, Or(isDigit(b[i]), Eq(bv8(b[i]), BVConst('.', 8))))
		}
		if e.decide(digitsDots) {
			return synErr()
		}
	}
	unsup("strconv.ParseFloat on a symbolic string of unsupported shape")
	return nil
}

type hostRegexp struct{ re *regexp.Regexp }

func init() {
	reg("fmt.Fprint", func(fr *frame, args []value) value { return fprintTo(fr, args[0], args[1].([]value), false) })
	reg("fmt.Fprintln", func(fr *frame, args []value) value { return fprintTo(fr, args[0], args[1].([]value), true) })
	reg("fmt.Fprintf", func(fr *frame, args []value) value {
		return writeTo(fr, args[0], formatAny(fr, args[1], args[2].([]value)))
	})
	reg("fmt.Sprintf", func(fr *frame, args []value) value {
		return fmt.Sprintf(args[0].(string), hostArgs(fr, args[1])...)
	})
	reg("fmt.Sprint", func(fr *frame, args []value) value { return fmt.Sprint(hostArgs(fr, args[0])...) })
	reg("fmt.Errorf", func(fr *frame, args []value) value {
		return mkError(fr, fmt.Sprintf(args[0].(string), hostArgs(fr, args[1])...))
	})
	reg("strconv.ParseFloat", func(fr *frame, args []value) value {
		if ss, ok := args[0].(symStr); ok {
			return parseFloatSym(fr, ss.B)
		}
		f, err := strconv.ParseFloat(args[0].(string), int(asInt64(args[1])))
		if err != nil {
			return tuple{f, mkError(fr, err.Error())}
		}
		return tuple{f, iface{}}
	})
	reg("strconv.FormatFloat", func(fr *frame, args []value) value {
		if anySym(args) {
			unsup("strconv.FormatFloat of a symbolic number")
		}
		return strconv.FormatFloat(args[0].(float64), args[1].(byte), int(asInt64(args[2])), int(asInt64(args[3])))
	})
	reg("internal/stringslite.Clone", func(fr *frame, args []value) value { return args[0] })
	reg("strings.Clone", func(fr *frame, args []value) value { return args[0] })

	// strings.Builder: a byte buffer (the real one uses unsafe)
	reg("(*strings.Builder).WriteString", func(fr *frame, args []value) value {
		b := builderBuf(args)
		buf, _ := (*b).([]value)
		sb := strBytes(args[1])
		*b = append(buf, sb...)
		return tuple{len(sb), iface{}}
	})
	reg("(*strings.Builder).WriteByte", func(fr *frame, args []value) value {
		b := builderBuf(args)
		buf, _ := (*b).([]value)
		*b = append(buf, args[1])
		return iface{}
	})
	reg("(*strings.Builder).WriteRune", func(fr *frame, args []value) value {
		b := builderBuf(args)
		buf, _ := (*b).([]value)
		var enc []value
		switch r := args[1].(type) {
		case symv:
			enc = strBytes(fr.runeToString(r))
		default:
			enc = strBytes(string(rune(asInt64(r))))
		}
		*b = append(buf, enc...)
		return tuple{len(enc), iface{}}
	})
	reg("(*strings.Builder).Write", func(fr *frame, args []value) value {
		b := builderBuf(args)
		buf, _ := (*b).([]value)
		p := args[1].([]value)
		*b = append(buf, p...)
		return tuple{len(p), iface{}}
	})
	reg("(*strings.Builder).String", func(fr *frame, args []value) value {
		buf, _ := (*builderBuf(args)).([]value)
		return normStr(buf)
	})
	reg("(*strings.Builder).Grow", func(fr *frame, args []value) value { return nil })
	reg("(*strings.Builder).Reset", func(fr *frame, args []value) value {
		*builderBuf(args) = []value(nil)
		return nil
	})
	reg("(*strings.Builder).Len", func(fr *frame, args []value) value {
		buf, _ := (*builderBuf(args)).([]value)
		return len(buf)
	})

	// internal/bytealg primitives (assembly in the real library)
	reg("internal/bytealg.IndexByteString", func(fr *frame, args []value) value {
		if !anySym(args) {
			return strings.IndexByte(args[0].(string), args[1].(byte))
		}
		b := strBytes(args[0])
		c := bv8(args[1])
		for i := range b {
			if fr.eng().decide(Eq(bv8(b[i]), c)) {
				return i
			}
		}
		return -1
	})
	reg("internal/bytealg.CountString", func(fr *frame, args []value) value {
		if !anySym(args) {
			return strings.Count(args[0].(string), string([]byte{args[1].(byte)}))
		}
		b := strBytes(args[0])
		c := bv8(args[1])
		n := 0
		for i := range b {
			if fr.eng().decide(Eq(bv8(b[i]), c)) {
				n++
			}
		}
		return n
	})
	reg("internal/bytealg.IndexString", func(fr *frame, args []value) value {
		if !anySym(args) {
			return strings.Index(args[0].(string), args[1].(string))
		}
		s, sep := strBytes(args[0]), strBytes(args[1])
		for i := 0; i+len(sep) <= len(s); i++ {
			if fr.eng().decide(strEqTerm(s[i:i+len(sep)], sep)) {
				return i
			}
		}
		return -1
	})
	reg("internal/bytealg.MakeNoZero", func(fr *frame, args []value) value {
		n := fr.concreteInt(args[0], "MakeNoZero")
		out := make([]value, n)
		for i := range out {
			out[i] = byte(0)
		}
		return out
	})
	cmpstr := func(fr *frame, args []value) value {
		if !anySym(args) {
			return strings.Compare(args[0].(string), args[1].(string))
		}
		a, b := strBytes(args[0]), strBytes(args[1])
		if fr.eng().decide(strLessTerm(a, b)) {
			return -1
		}
		if fr.eng().decide(strEqTerm(a, b)) {
			return 0
		}
		return 1
	}
	reg("internal/bytealg.abigen_runtime_cmpstring", cmpstr)
	reg("internal/bytealg.CompareString", cmpstr)
	reg("strings.Compare", cmpstr)

	// math
	fp1 := func(host func(float64) float64, rm *Term) externalFn {
		return func(fr *frame, args []value) value {
			if s, ok := args[0].(symv); ok {
				return mkVal(FPRound(rm, s.T), types.Float64)
			}
			return host(args[0].(float64))
		}
	}
	reg("math.archFloor", fp1(math.Floor, tRTN))
	reg("math.archCeil", fp1(math.Ceil, tRTP))
	reg("math.archTrunc", fp1(math.Trunc, tRTZ))
	reg("math.Floor", fp1(math.Floor, tRTN))
	reg("math.Ceil", fp1(math.Ceil, tRTP))
	reg("math.Trunc", fp1(math.Trunc, tRTZ))
	reg("math.Round", fp1(math.Round, tRNA))
	reg("math.IsNaN", func(fr *frame, args []value) value {
		if s, ok := args[0].(symv); ok {
			return mkBool(FPPred("fp.isNaN", s.T))
		}
		return math.IsNaN(args[0].(float64))
	})
	reg("math.IsInf", func(fr *frame, args []value) value {
		s, ok := args[0].(symv)
		if !ok {
			return math.IsInf(args[0].(float64), int(asInt64(args[1])))
		}
		sign := asInt64(args[1])
		inf := FPPred("fp.isInfinite", s.T)
		neg := FPPred("fp.isNegative", s.T)
		switch {
		case sign > 0:
			return mkBool(And(inf, Not(neg)))
		case sign < 0:
			return mkBool(And(inf, neg))
		}
		return mkBool(inf)
	})
	reg("math.Float64bits", func(fr *frame, args []value) value {
		if s, ok := args[0].(symv); ok {
			if s.T.Op == "(_ to_fp 11 53)" && len(s.T.Args) == 1 {
				return mkVal(s.T.Args[0], types.Uint64)
			}
			unsup("math.Float64bits of a computed symbolic double")
		}
		return math.Float64bits(args[0].(float64))
	})
	reg("math.Float64frombits", func(fr *frame, args []value) value {
		if s, ok := args[0].(symv); ok {
			return mkVal(FPFromBits(s.T), types.Float64)
		}
		return math.Float64frombits(args[0].(uint64))
	})

	// sort.Slice / sort.SliceStable use reflection to swap; for the short slices jqawk
	// sorts, the library's algorithm is insertion sort (n <= 12), reproduced here with
	// the caller's less function interpreted.
	sortSlice := func(fr *frame, args []value) value {
		it, ok := args[0].(iface)
		if !ok {
			unsup("sort.Slice: operand is not an interface value")
		}
		data, ok := it.v.([]value)
		if !ok {
			unsup("sort.Slice on %T", it.v)
		}
		if len(data) > 12 {
			unsup("sort.Slice on more than 12 elements (pdqsort is not modelled)")
		}
		less := func(i, j int) bool {
			return fr.truth(call(fr.i, fr, 0, args[1], []value{i, j}))
		}
		for i := 1; i < len(data); i++ {
			for j := i; j > 0 && less(j, j-1); j-- {
				data[j], data[j-1] = data[j-1], data[j]
			}
		}
		return nil
	}
	reg("sort.Slice", sortSlice)
	reg("sort.SliceStable", sortSlice)

	// sync / sync/atomic: the interpreter runs one goroutine per path, so locks are
	// no-ops and atomics are plain loads and stores
	nop := func(fr *frame, args []value) value { return nil }
	for _, n := range []string{"(*sync.Mutex).Lock", "(*sync.Mutex).Unlock", "(*sync.RWMutex).Lock", "(*sync.RWMutex).Unlock", "(*sync.RWMutex).RLock", "(*sync.RWMutex).RUnlock"} {
		reg(n, nop)
	}
	reg("(*sync.Mutex).TryLock", func(fr *frame, args []value) value { return true })
	// sync.Pool with one goroutine and no garbage collection in between: Get hands back
	// the most recent Put, else calls New (the case in which pooled state can leak from one
	// use into the next; a pool may also drop items, which only makes leaks rarer)
	reg("(*sync.Pool).Put", func(fr *frame, args []value) value {
		p := args[0].(*value)
		if it, ok := args[1].(iface); ok && it.t == nil {
			return nil
		}
		if fr.i.pools == nil {
			fr.i.pools = map[*value][]value{}
		}
		fr.i.pools[p] = append(fr.i.pools[p], args[1])
		return nil
	})
	reg("(*sync.Pool).Get", func(fr *frame, args []value) value {
		p := args[0].(*value)
		if l := fr.i.pools[p]; len(l) > 0 {
			x := l[len(l)-1]
			fr.i.pools[p] = l[:len(l)-1]
			return x
		}
		st := (*p).(structure)
		newFn := st[len(st)-1] // the New field is the last one
		if fn, ok := newFn.(*closure); ok && fn != nil {
			return call(fr.i, fr, 0, fn, nil)
		}
		if fn, ok := newFn.(*ssa.Function); ok && fn != nil {
			return call(fr.i, fr, 0, fn, nil)
		}
		return iface{}
	})
	for _, ty := range []string{"Int32", "Uint32", "Int64", "Uint64", "Uintptr"} {
		reg("sync/atomic.Load"+ty, func(fr *frame, args []value) value { return *args[0].(*value) })
		reg("sync/atomic.Store"+ty, func(fr *frame, args []value) value { *args[0].(*value) = args[1]; return nil })
		reg("sync/atomic.Swap"+ty, func(fr *frame, args []value) value {
			p := args[0].(*value)
			old := *p
			*p = args[1]
			return old
		})
		reg("sync/atomic.CompareAndSwap"+ty, func(fr *frame, args []value) value {
			p := args[0].(*value)
			if asUint64ish(*p) == asUint64ish(args[1]) {
				*p = args[2]
				return true
			}
			return false
		})
		reg("sync/atomic.Add"+ty, func(fr *frame, args []value) value {
			p := args[0].(*value)
			*p = binop(token.ADD, nil, *p, args[1])
			return *p
		})
	}

	// regexp: RE2 is the environment
	reg("regexp.Compile", func(fr *frame, args []value) value {
		if anySym(args) {
			unsup("regexp.Compile of a symbolic pattern")
		}
		re, err := regexp.Compile(args[0].(string))
		if err != nil {
			var nilp *value
			return tuple{nilp, mkError(fr, err.Error())}
		}
		var box value = hostRegexp{re}
		return tuple{&box, iface{}}
	})
	reg("(*regexp.Regexp).MatchString", func(fr *frame, args []value) value {
		if anySym(args[1:]) {
			unsup("regexp match on a symbolic subject")
		}
		return (*args[0].(*value)).(hostRegexp).re.MatchString(args[1].(string))
	})
}

var _ ssa.Value
