package ext

import (
	"math"
	"strconv"
	"strings"

	lang "github.com/alligator/jqawk/src"
	"github.com/alligator/jqawk/zzverif/vh"
)

// C17 reference renderer (DESIGN.md §3.4): top-level strings raw; nested strings
// double-quoted; numbers in plain positional decimal; [a, b]; {"k": v}.

var c17Nums = []float64{0, 1, -2.5, 1e21, 1e-7, 9007199254740993, 123456789012345680000, 5e-324, 1.7976931348623157e308, 0.1}

type c17Node struct {
	kind  int // vNum vStr vNull vBool vArr, 5 = object
	num   float64
	str   string
	b     bool
	items []c17Node
	keys  []string
}

const vObj = 5

func c17Leaf(name string) c17Node {
	switch vh.Choose(name+"k", 4) {
	case 0:
		return c17Node{kind: vNum, num: c17Nums[vh.Choose(name+"n", 3)]} // the full list: VHC17Numbers
	case 1:
		s := vh.Bytes(name+"s", 2*vh.Choose(name+"sl", 2)) // empty or two bytes
		return c17Node{kind: vStr, str: s}
	case 2:
		return c17Node{kind: vBool, b: vh.Bool(name + "b")}
	}
	return c17Node{kind: vNull}
}

func c17Tree(name string, depth int) c17Node {
	if depth == 0 {
		return c17Leaf(name)
	}
	switch vh.Choose(name+"c", 6) {
	case 0:
		return c17Leaf(name)
	case 1:
		return c17Node{kind: vArr}
	case 2:
		return c17Node{kind: vArr, items: []c17Node{c17Tree(name+"0", depth-1)}}
	case 3:
		return c17Node{kind: vArr, items: []c17Node{c17Tree(name+"0", depth-1), c17Tree(name+"1", depth-1)}}
	case 4:
		return c17Node{kind: vObj}
	}
	return c17Node{kind: vObj, keys: []string{"k"}, items: []c17Node{c17Tree(name+"0", depth-1)}}
}

func (n c17Node) doc() any {
	switch n.kind {
	case vNum:
		return n.num
	case vStr:
		return n.str
	case vBool:
		return n.b
	case vNull:
		return nil
	case vArr:
		out := make([]any, len(n.items))
		for i, it := range n.items {
			out[i] = it.doc()
		}
		return out
	}
	m := map[string]any{}
	for i, k := range n.keys {
		m[k] = n.items[i].doc()
	}
	return m
}

func (n c17Node) render(top bool) string {
	switch n.kind {
	case vNum:
		return strconv.FormatFloat(n.num, 'f', -1, 64)
	case vStr:
		if top {
			return n.str
		}
		return "\"" + n.str + "\""
	case vBool:
		if n.b {
			return "true"
		}
		return "false"
	case vNull:
		return "null"
	case vArr:
		s := "["
		for i, it := range n.items {
			if i > 0 {
				s += ", "
			}
			s += it.render(false)
		}
		return s + "]"
	}
	s := "{"
	for i, k := range n.keys {
		if i > 0 {
			s += ", "
		}
		s += "\"" + k + "\": " + n.items[i].render(false)
	}
	return s + "}"
}

// VHC17Tree: document-shaped values through NewValue(...).PrettyString and through print.
func VHC17Tree() {
	depth := 2
	if vh.Thorough() {
		depth = 3
	}
	t := c17Tree("t", depth)
	want := t.render(true)
	v := lang.NewValue(t.doc())
	got := v.PrettyString(false)
	vh.Reach("value rendered")
	vh.Assert(got == want, "C17: rendering of a document value")
	out, k := runProg("{ print $.v }", map[string]any{"v": t.doc()})
	vh.Assert(k == OK && out == want+"\n", "C17: print writes the rendering and a newline")
}

// VHC17Numbers: plain positional decimal, no exponent, reads back as the same double.
func VHC17Numbers() {
	x := c17Nums[vh.Choose("n", len(c17Nums))]
	if vh.Choose("neg", 2) == 1 {
		x = -x
	}
	out, k := runProg("{ print $.x }", map[string]any{"x": x})
	vh.Assert(k == OK && strings.HasSuffix(out, "\n"), "C17: a number prints")
	txt := strings.TrimSuffix(out, "\n")
	vh.Assert(!strings.ContainsAny(txt, "eE"), "C17: numbers print without an exponent")
	back, err := strconv.ParseFloat(txt, 64)
	vh.Assert(err == nil && math.Float64bits(back) == math.Float64bits(x), "C17: the printed number reads back as the identical double")
	vh.Reach("number rendered")
}

// VHC17Print: separators, newline, bare print and body-less rules print $.
func VHC17Print() {
	s := vh.Bytes("s", 2)
	b := vh.Bool("b")
	doc := map[string]any{"s": s, "b": b}
	bs := "false"
	if b {
		bs = "true"
	}
	dollar := "{\"b\": " + bs + ", \"s\": \"" + s + "\"}"
	dollar2 := "{\"s\": \"" + s + "\", \"b\": " + bs + "}"
	switch vh.Choose("form", 6) {
	case 0:
		// 1-4 arguments of every kind, strings of length 0-2 (an empty rendering is still an argument)
		n := 1 + vh.Choose("nargs", 4)
		args, want := "", ""
		for i := 0; i < n; i++ {
			if i > 0 {
				args += ", "
				want += " "
			}
			name := "p" + itoa(i)
			switch vh.Choose(name+"k", 5) {
			case 0:
				t := vh.Bytes(name+"s", vh.Choose(name+"l", 3))
				doc[name] = t
				args += "$." + name
				want += t
			case 1:
				args += "$.b"
				want += bs
			case 2:
				args += "null"
				want += "null"
			case 3:
				args += "7"
				want += "7"
			case 4:
				args += "''"
			}
		}
		out, k := runProg("{ print "+args+" }", doc)
		vh.Assert(k == OK && out == want+"\n", "C17: print separates its arguments by exactly one space each and ends the line")
	case 1:
		out, k := runProg("{ print }", doc)
		vh.Assert(k == OK && vh.Or(out == dollar+"\n", out == dollar2+"\n"), "C17: a bare print prints $")
	case 2:
		out, k := runProg("$.b", doc)
		if b {
			vh.Assert(k == OK && vh.Or(out == dollar+"\n", out == dollar2+"\n"), "C17: a rule without a body prints $")
		} else {
			vh.Assert(k == OK && out == "", "C17: a body-less rule whose pattern is false prints nothing")
		}
	case 3:
		out, k := runProg("{ print $.s; print $.s }", doc)
		vh.Assert(k == OK && out == s+"\n"+s+"\n", "C17: each print ends its own line")
	case 4:
		out, k := runProg("{ print [$.s, [$.b]], {k: $.s} }", doc)
		vh.Assert(k == OK && out == "[\""+s+"\", ["+bs+"]] {\"k\": \""+s+"\"}\n", "C17: program-built containers render like document ones")
	case 5:
		out, k := runProg("function f() { return 1 }\n{ print f, /re/, nosuch }", doc)
		vh.Assert(k == OK && strings.HasSuffix(out, "\n") && strings.Count(out, "\n") == 1, "C17: function, regex and unset values render on one line and terminate")
	}
	vh.Reach("print evaluated")
}

type c17Cyc struct {
	prog string
	want string
}

var c17Cycles = []c17Cyc{
	{"BEGIN { a.a = a; print a }", "{\"a\": <circular reference>}\n"},
	{"BEGIN { b = []; b[0] = 1; b[1] = b; print b }", "[1, <circular reference>]\n"},
	{"BEGIN { a.b.a = a; print a }", "{\"b\": {\"a\": <circular reference>}}\n"},
	{"BEGIN { a.l = []; a.l[0] = a; print a }", "{\"l\": [<circular reference>]}\n"},
	{"BEGIN { a.b.c.a = a; print a }", "{\"b\": {\"c\": {\"a\": <circular reference>}}}\n"},
	{"BEGIN { b = []; b[0] = {}; b[0].up = b; print b }", "[{\"up\": <circular reference>}]\n"},
	// a cycle of length two, entered from each of its members in one print
	{"BEGIN { b.x = 1; a.y = b; b.x = a; print [a, b] }", "[{\"y\": {\"x\": <circular reference>}}, {\"x\": {\"y\": <circular reference>}}]\n"},
	{"BEGIN { b.x = 1; a.y = b; b.x = a; print [b, a, b] }", "[{\"x\": {\"y\": <circular reference>}}, {\"y\": {\"x\": <circular reference>}}, {\"x\": {\"y\": <circular reference>}}]\n"},
	{"BEGIN { b.x = 1; a.y = b; b.x = a; print {p: a, q: b} }", "{\"p\": {\"y\": {\"x\": <circular reference>}}, \"q\": {\"x\": {\"y\": <circular reference>}}}\n"},
	// keys that look like numbers are ordered like any other key (bytewise), at every depth
	{"BEGIN { o = {}; o['2'] = 1; o['10'] = 2; o['1a'] = 3; o['9'] = 4; o['-1'] = 5; print o, [o] }", "{\"-1\": 5, \"10\": 2, \"1a\": 3, \"2\": 1, \"9\": 4} [{\"-1\": 5, \"10\": 2, \"1a\": 3, \"2\": 1, \"9\": 4}]\n"},
	// sharing without a cycle is printed in full
	{"BEGIN { s = [1, 2]; t = [s, s]; print t }", "[[1, 2], [1, 2]]\n"},
	{"BEGIN { o.k = 1; q = [o, o, [o]]; print q }", "[{\"k\": 1}, {\"k\": 1}, [{\"k\": 1}]]\n"},
	{"BEGIN { s = [1]; t = [s, [s, [s]]]; print t }", "[[1], [[1], [[1]]]]\n"},
	{"BEGIN { e = []; t = [e, [e]]; print t }", "[[], [[]]]\n"},
	{"BEGIN { e = {}; t = [e, {k: e}]; print t }", "[{}, {\"k\": {}}]\n"},
	// views of an ancestor's storage that were shortened and regrown in place are not the ancestor
	{"BEGIN { a = []; a.push(1); a.push(2); a.push(3); b = a; b.popfirst(); b.push(9); a[0] = b; print a }", "[[2, 3, 9], 2, 3]\n"},
	{"BEGIN { a = []; a.push([1]); a.push([2]); b = a; b.popfirst(); b.push(9); a[0] = b; print a }", "[[[2], 9], [2]]\n"},
	// a real cycle is still reported after the array grew in place
	{"BEGIN { c = []; c.push(1); c.push(2); c.push(3); c[0] = c; c.push(4); print c }", "[<circular reference>, 2, 3, 4]\n"},
	// a sub-slice of an ancestor's storage is not the ancestor
	{"BEGIN { a = [[1], [2]]; x = a; x.popfirst(); a[0] = x; print a }", "[[[2]], [2]]\n"},
}

// VHC17Cycles: rendering terminates; a container reachable from itself prints
// <circular reference> at the recurrence; shared acyclic structure prints in full.
func VHC17Cycles() {
	c := c17Cycles[vh.Choose("case", len(c17Cycles))]
	vh.MapOrders(1) // Go's map iteration order is an input: forward or reverse, chosen symbolically
	out, k := runProg(c.prog)
	vh.MapOrders(0)
	vh.Reach("structure rendered")
	vh.Assert(k == OK, "C17: printing a cyclic or shared structure must not fail")
	vh.Assert(out == c.want, "C17: cycles print <circular reference> at the recurrence, sharing prints in full: "+c.prog)
}
