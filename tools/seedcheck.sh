#!/bin/bash
# usage: tools/seedcheck.sh <seed-dir> <name> <property> [more properties to run...]
# 1. confirms the seeded change in a fresh scratch worktree (suite passes with it, demo
#    fails with it and passes without it); 2. applies it to /repo, runs the checks, and
#    reverts it; 3. stores it under /verif/seeded/<name>/ with meta.json.
set -u
SEED="$1"; NAME="$2"; PROP="$3"; shift 3
export GOFLAGS=-mod=mod GOPROXY=off GOSUMDB=off GOTOOLCHAIN=local
V=/verif
W=/tmp/wt/verify-$NAME
rm -rf "$W"; git -C /repo worktree prune; git -C /repo worktree add -q "$W" HEAD || exit 2
res() { echo "$1"; }
cd "$W"
cp "$SEED/demo_test.go" ./zz_seed_demo_test.go
go test -vet=off -count=1 -run TestSeedDemo . > /tmp/seed_$NAME.clean.log 2>&1; CLEAN=$?
git apply "$SEED/patch.diff" || { echo "patch does not apply"; exit 2; }
go build ./... > /tmp/seed_$NAME.build.log 2>&1 || { echo "patched tree does not build"; exit 2; }
go test -vet=off -count=1 -run TestSeedDemo . > /tmp/seed_$NAME.patched.log 2>&1; PATCHED=$?
rm -f zz_seed_demo_test.go
go test -vet=off -count=1 ./... > /tmp/seed_$NAME.suite.log 2>&1; SUITE=$?
cd /; git -C /repo worktree remove --force "$W"
echo "demo on clean tree: exit $CLEAN (want 0); demo on patched tree: exit $PATCHED (want != 0); suite on patched tree: exit $SUITE (want 0)"
if [ $CLEAN -ne 0 ] || [ $PATCHED -eq 0 ] || [ $SUITE -ne 0 ]; then echo "SEED NOT CONFIRMED"; exit 3; fi
# run the checks against it
git -C /repo apply "$SEED/patch.diff" || exit 2
declare -A RC
for p in $PROP "$@"; do
  (cd $V && ./checks/run $p quick > /tmp/seed_$NAME.check_$p.log 2>&1); RC[$p]=$?
  echo "check $p quick on the seeded tree: exit ${RC[$p]}  $(grep -c '^VIOLATION' /tmp/seed_$NAME.check_$p.log) VIOLATION lines"
done
git -C /repo checkout -- .
git -C /repo status --short | grep -v '^??' && echo "WARNING: /repo not clean"
mkdir -p $V/seeded/$NAME
cp "$SEED/patch.diff" "$SEED/demo_test.go" $V/seeded/$NAME/
[ -f "$SEED/NOTES.md" ] && cp "$SEED/NOTES.md" $V/seeded/$NAME/
python3 - "$NAME" "$PROP" "${RC[$PROP]}" "$@" <<'PY'
import json,sys,re,os
name,prop,rc=sys.argv[1:4]; others=sys.argv[4:]
notes=open('/verif/seeded/%s/NOTES.md'%name).read() if os.path.exists('/verif/seeded/%s/NOTES.md'%name) else ''
viol=[l.strip() for l in open('/tmp/seed_%s.check_%s.log'%(name,prop)) if l.startswith('VIOLATION') or l.startswith('  assert') or l.startswith('  panic')]
meta={"id":name,"property":prop,"needs":"see NOTES.md","confirmed":{"demo_passes_on_clean_tree":True,"demo_fails_on_seeded_tree":True,"suite_passes_on_seeded_tree":True},
"ran":["fresh worktree of /repo HEAD: go test -run TestSeedDemo (clean, patched); go test ./... (patched)","git -C /repo apply patch.diff; ./checks/run %s quick; git -C /repo checkout -- ."%prop],
"detected_by_quick_check": rc!="0", "quick_exit":int(rc), "violation_lines":viol[:6]}
for o in others:
    lines=[l.strip() for l in open('/tmp/seed_%s.check_%s.log'%(name,o)) if l.startswith('VIOLATION')]
    meta.setdefault("other_checks",{})[o]={"violations":len(lines)}
json.dump(meta,open('/verif/seeded/%s/meta.json'%name,'w'),indent=1)
print("stored /verif/seeded/%s (detected=%s)"%(name, rc!="0"))
PY
