package interp

import "go/types"

func mustDeref(t types.Type) types.Type {
	if p, ok := t.Underlying().(*types.Pointer); ok {
		return p.Elem()
	}
	panic("mustDeref: not a pointer: " + t.String())
}
