#!/usr/bin/env python3
# Regenerates the table of seeded changes in DESIGN.md (between the SEEDTABLE markers)
# from seeded/*/meta.json.
import json,glob,re,os
rows=[]
for p in sorted(glob.glob('/verif/seeded/*/meta.json')):
    m=json.load(open(p))
    harn=sorted({re.search(r'replays/C\d\d-(\w+?)-\d+\.json',v).group(1) for v in m.get('violation_lines',[]) if re.search(r'replays/C\d\d-(\w+?)-\d+\.json',v)})
    first='yes' if m.get('first_run_detected', m.get('detected_by_quick_check')) else 'no'
    now=('yes' if m['regression']['caught'] else '**no**') if 'regression' in m else ('yes' if (m.get('detected_by_quick_check') or m.get('detected_after_strengthening')) else '**no**')
    rows.append('| %s | %s | %s | %s | %s |'%(m['id'],first,now,m.get('caught_by') or ', '.join(harn),(m.get('strengthening') or '').replace('|','/')))
n=len(rows); f=sum(1 for r in rows if r.split('|')[2].strip()=='yes'); a=sum(1 for r in rows if r.split('|')[3].strip()=='yes')
txt='%d seeded changes; %d caught by the checks as they stood when the change arrived, %d caught now.\n\n| seeded change | caught on arrival | caught now | harness reporting it | what was strengthened |\n|---|---|---|---|---|\n'%(n,f,a)+'\n'.join(rows)+'\n'
d=open('/verif/DESIGN.md').read()
d=re.sub(r'(<!-- SEEDTABLE BEGIN -->\n).*?(<!-- SEEDTABLE END -->)',lambda mo: mo.group(1)+txt+mo.group(2),d,flags=re.S)
open('/verif/DESIGN.md','w').write(d)
print(n,f,a)
