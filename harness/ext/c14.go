package ext

import (
	"strings"

	"github.com/alligator/jqawk/cli"
	lang "github.com/alligator/jqawk/src"
	"github.com/alligator/jqawk/zzverif/vh"
)

var c14Selectors = []string{"$.result", "$.result[1]", "$.meta.inner", "$.result[0].name", "$", "$.nosuch", "$.result[5]", "[$.meta, $.result[0]]", "$.count + 1"}

var c14Programs = []string{
	"{ print $ is object, $index is unknown }\nEND { print 'end' }",
	"{ print $.name }",
	"$.n > 1 { print $.name; seen++ }\nEND { print seen }",
	"{ $.tag = 'x' }",
	"{ $.n++ }\n{ if ($.n > 2) next; print $.n }",
	"BEGIN { print 'begin' }\n{ total += $.n }\nEND { print total }",
	"{ print $file; exit }",
}

type c14Run struct {
	out, json string
	k, jk     int
}

func c14Eval(prog string, sels []string, docs []any) c14Run {
	var out vh.Out
	ev, err := lang.EvalProgram(prog, []lang.InputFile{{Name: "in", Reader: &vh.DocStream{Items: docs}}}, sels, &out, false)
	r := c14Run{out: out.String(), k: legal(err, "EvalProgram")}
	if err == nil && ev != nil {
		j, jerr := ev.GetRootJson()
		r.json = j
		if jerr != nil {
			r.jk = 1
		}
	}
	return r
}

// VHC14Selector (the library-level clause of C14): `-r E` behaves as
// `BEGINFILE { $ = E }` for programs that do not themselves inspect $ in
// BEGINFILE/ENDFILE rules: same standard output, same JSON output, same outcome.
func VHC14Selector() {
	sel := c14Selectors[vh.Choose("sel", len(c14Selectors))]
	prog := c14Programs[vh.Choose("prog", len(c14Programs))]
	n1 := float64(1 + vh.Choose("n1", 3))
	mk := func(tag string) any {
		return map[string]any{
			"result": []any{map[string]any{"name": tag + "a", "n": n1}, map[string]any{"name": tag + "b", "n": 2.0}},
			"meta":   map[string]any{"inner": map[string]any{"name": tag + "m", "n": 3.0}},
			"count":  2.0,
		}
	}
	ndocs := 1 + vh.Choose("ndocs", 2)
	docs := func() []any {
		var d []any
		for i := 0; i < ndocs; i++ {
			d = append(d, mk(itoa(i)))
		}
		return d
	}
	a := c14Eval(prog, []string{sel}, docs())
	b := c14Eval("BEGINFILE { $ = "+sel+" }\n"+prog, nil, docs())
	if vh.Choose("twice", 2) == 1 {
		// the same selector given twice: every selector sees the value as it was read, so a
		// program that writes into $ behaves the second time exactly as the first time
		if ndocs != 1 {
			return
		}
		once := c14Eval("{ $.n++; $.tag = 'x' }\n{ print $.n, $.tag, $ }", []string{sel}, docs())
		twice := c14Eval("{ $.n++; $.tag = 'x' }\n{ print $.n, $.tag, $ }", []string{sel, sel}, docs())
		vh.Reach("selector compared")
		vh.Assert(once.k == twice.k, "C14: a repeated selector ends with the same outcome: "+sel)
		if once.k == OK {
			vh.Assert(twice.out == once.out+once.out, "C14: each -r selector is applied to the value as it was read, whatever an earlier selector's pass wrote: "+sel)
			vh.Assert(twice.json == once.json, "C14: the JSON output after a repeated selector is that of one pass: "+sel)
		}
		return
	}
	vh.Reach("selector compared")
	vh.Assert(a.k == b.k, "C14: -r E and BEGINFILE { $ = E } end with the same outcome: E = "+sel)
	vh.Assert(a.out == b.out, "C14: -r E and BEGINFILE { $ = E } print the same: E = "+sel)
	vh.Assert(a.jk == b.jk && a.json == b.json, "C14: -r E and BEGINFILE { $ = E } write the same JSON: E = "+sel)
}

// ---- the wrapper clauses: the real cli.Run on a model of argv / files / descriptors ----

const c14Prog = "BEGIN { print 'B', 'cr\r\nlf\ttab' }\n{ print $file == 'hidden', $.name, $.n }\n$.n > 1 { $.seen = true }\nEND { print 'E' }"

func c14Docs(tag string, s string) []any {
	return []any{
		[]any{map[string]any{"name": tag + s, "n": 1.0}, map[string]any{"name": tag + "two", "n": 2.0}},
		map[string]any{"name": tag + "%d 100% %s\\n", "n": 3.0, "list": []any{}}, // the last value is what -o writes
	}
}

func c14Lib(prog string, files []string, sels []string, s string) (string, string, int, int) {
	var out vh.Out
	var in []lang.InputFile
	for _, f := range files {
		in = append(in, lang.InputFile{Name: f, Reader: &vh.DocStream{Items: c14Docs(f[:1], s)}})
	}
	ev, err := lang.EvalProgram(prog, in, sels, &out, false)
	k := legal(err, "EvalProgram")
	j, jk := "", 0
	if err == nil && ev != nil {
		var jerr error
		j, jerr = ev.GetRootJson()
		if jerr != nil {
			jk = 1
		}
	}
	return out.String(), j, k, jk
}

// VHC14Wrapper: -f / inline, stdin / one file / two files / a missing file, 0-2 -r
// selectors, -o absent / - / FILE: standard output, JSON output and outcome equal the
// library's for the same program, selectors and inputs in the same order; -o FILE
// receives exactly what -o - prints after the program's output; exit status 0 on
// success, non-zero with a diagnostic on stderr otherwise.
func VHC14Wrapper() {
	s := vh.Bytes("s", 1) // a symbolic byte that travels through program text and data
	vh.Assume(vh.Not(vh.OneOf(s[0], "'\"\\\n\r")))
	prog := "BEGIN { print '" + s + "' }\n" + c14Prog
	if vh.Choose("beginonly", 2) == 1 {
		prog = "BEGIN { print '" + s + "', 'only' }" // a program that never looks at the input still has it read (-o, faults)
	}
	src := vh.Choose("progsrc", 2) // 0 inline, 1 -f
	inp := vh.Choose("inputs", 6)  // 0 stdin, 1 one file, 2 two files, 3 a missing file, 4 the same file twice, 5 the input file is also the -o file
	nsel := vh.Choose("nsel", 4)   // 0-2 selectors, or one whose text holds commas, blanks and the symbolic byte
	outm := vh.Choose("omode", 3)  // 0 none, 1 "-o -", 2 "-o out.json"
	sels := []string{"$", "[$]"}
	if nsel == 3 {
		sels = []string{"[$[\"" + s + "\"], $.n,  $ is object]"}
	} else {
		sels = sels[:nsel]
	}
	ds := s // what travels through the data
	if outm != 0 {
		ds = "q" // the JSON text level is not modelled symbolically: concrete data when -o is given
	}

	p := &vh.Proc{Texts: map[string]string{}, Data: map[string]*vh.DocStream{}}
	var args []string
	for _, sel := range sels {
		args = append(args, "-r", sel)
	}
	switch outm {
	case 1:
		args = append(args, "-o", "-")
	case 2:
		args = append(args, "-o", "out.json")
		// the output file may exist already, shorter or longer than what is written now
		switch vh.Choose("existing", 3) {
		case 1:
			p.Texts["out.json"] = "{}"
		case 2:
			p.Texts["out.json"] = "[\n" + strings.Repeat("  \"old old old old\",\n", 40) + "  0\n]\n"
		}
	}
	if src == 1 {
		p.Texts["prog.jqawk"] = prog
		args = append(args, "-f", "prog.jqawk")
	} else {
		args = append(args, prog)
	}
	var names []string // as the library sees them
	switch inp {
	case 0:
		p.Stdin = &vh.DocStream{Items: c14Docs("<", ds)}
		names = []string{"<stdin>"}
	case 1:
		p.Data["a.json"] = &vh.DocStream{Items: c14Docs("a", ds)}
		args = append(args, "a.json")
		names = []string{"a.json"}
	case 2:
		p.Data["a.json"] = &vh.DocStream{Items: c14Docs("a", ds)}
		p.Data["b.json"] = &vh.DocStream{Items: c14Docs("b", ds)}
		args = append(args, "b.json", "a.json")
		names = []string{"b.json", "a.json"}
	case 3:
		p.Data["a.json"] = &vh.DocStream{Items: c14Docs("a", ds)}
		args = append(args, "a.json", "nosuch.json")
	case 4:
		p.Data["a.json"] = &vh.DocStream{Items: c14Docs("a", ds)}
		p.Data["b.json"] = &vh.DocStream{Items: c14Docs("b", ds)}
		args = append(args, "a.json", "b.json", "a.json")
		names = []string{"a.json", "b.json", "a.json"}
	case 5:
		// rewriting a document in place: the file named by -o is the input file
		if outm != 2 {
			return
		}
		for i, a := range args {
			if a == "out.json" {
				args[i] = "a.json"
			}
		}
		delete(p.Texts, "out.json")
		p.Data["a.json"] = &vh.DocStream{Items: c14Docs("a", ds)}
		args = append(args, "a.json")
		names = []string{"a.json"}
	}
	p.Args = args
	res := vh.RunCLI(cli.Run, p)
	vh.Reach("front end evaluated")

	if inp == 3 {
		vh.Assert(res.Exit != 0 && res.Stderr != "", "C14: an unreadable input file gives a non-zero status and a diagnostic")
		vh.Assert(res.Stdout == "", "C14: nothing runs when an input file cannot be opened")
		return
	}
	lout, ljson, lk, ljk := c14Lib(prog, names, sels, ds)
	if lk != OK {
		vh.Assert(res.Exit != 0 && res.Stderr != "", "C14: a failing run gives a non-zero status and a diagnostic")
		vh.Assert(res.Stdout == lout, "C14: output before a failure equals the library's")
		return
	}
	if outm != 0 && len(names) > 1 {
		vh.Assert(res.Exit != 0 && res.Stderr != "", "C14: -o with several input files is refused with a diagnostic")
		vh.Assert(res.Stdout == lout, "C14: the program's own output is unaffected by the refusal")
		return
	}
	if outm != 0 && ljk != 0 {
		vh.Assert(res.Exit != 0 && res.Stderr != "", "C14: a root that cannot be serialised gives a non-zero status")
		return
	}
	vh.Assert(res.Exit == 0, "C14: a successful run exits with status 0")
	vh.Assert(res.Stderr == "", "C14: a successful run writes nothing to stderr")
	switch outm {
	case 0:
		vh.Assert(res.Stdout == lout, "C14: standard output equals the library's")
		vh.Assert(len(res.Written) == 0, "C14: without -o no file is written")
	case 1:
		vh.Assert(res.Stdout == lout+ljson, "C14: -o - prints the JSON of the root after the program's own output, byte for byte")
	case 2:
		vh.Assert(res.Stdout == lout, "C14: with -o FILE standard output is the program's own output")
		ofile := "out.json"
		if inp == 5 {
			ofile = "a.json"
		}
		vh.Assert(res.Written[ofile] == ljson, "C14: -o FILE receives exactly the bytes -o - prints (also when FILE is the input file)")
	}
}
