package interp

// Symbolic exploration: decision log with deterministic re-execution, a shared work
// queue of decision prefixes, one solver set per worker.

import (
	"fmt"
	"go/token"
	"go/types"
	"io"
	"runtime"
	"sort"
	"strings"
	"sync"
	"time"

	"golang.org/x/tools/go/ssa"
)

// dec is one recorded decision. For value enumeration (concretisation) V carries the
// candidate value that was compared against, so that re-execution is solver-free.
type dec struct {
	B bool
	V uint64
}

type Violation struct {
	Kind    string            `json:"kind"` // "assert" or "panic"
	Label   string            `json:"label"`
	Model   map[string]uint64 `json:"model"`
	Choices map[string]uint64 `json:"choices"` // values of Choose symbols on this path
	Path    int               `json:"path"`
	Detail  string            `json:"detail,omitempty"`
}

type Config struct {
	Main          *ssa.Package // package containing the harness function
	Harness       string       // function name in Main
	Sizes         types.Sizes
	Workers       int
	MaxPaths      int
	MaxInstr      int64 // per path
	MaxDecisions  int   // per path: bound on the branch decisions taken (default 4000)
	Deadline      time.Time
	FeasTimeoutMs int // feasibility queries (unknown = keep branch)
	AssertTimeMs  int // final obligations, first solver
	FallbackMs    int // final obligations, second solver (0 = none)
	CrossCheck    bool
	MutablePkgs   map[string]bool // packages whose globals are re-initialised per path
	InitAllow     map[string]bool // packages whose init is executed at all
	Intercept     map[string]string
	MaxViolations int
	SampleEvery   int // keep every n-th passing path's model as a conformance sample
	SampleCap     int
	Trace         bool
	Thorough      bool
	ReportBudget  bool // paths that exhaust the step budget become candidates (kind "budget") to be replayed natively under a wall-clock cap
}

type PathSample struct {
	Path     int               `json:"path"`
	Model    map[string]uint64 `json:"model"`
	Choices  map[string]uint64 `json:"choices"`
	Out      string            `json:"out"` // harness-reported observation (vh.Observe), concrete under the model
	Decision int               `json:"decisions"`
	PCSize   int               `json:"pc_terms"`
}

type Stats struct {
	Paths           int
	PathsNontrivial int // paths with >=1 solver-decided branch or solver-discharged obligation
	Instrs          int64
	Decisions       int64
	Queries         map[string]int // verdict -> count
	QueriesBy       map[string]int // solver -> count
	SolverDur       time.Duration
	Obligations     int
	DischargedSyn   int
	DischargedSolv  int
	Inconclusive    int
	Unsup           map[string]int
	AssumePruned    int
	BudgetPaths     int
	Reach           map[string]int
	Viol            []Violation
	ViolCount       map[string]int
	Funcs           map[string]bool // functions executed with >=1 symbolic value live
	Samples         []PathSample
	Intercepted     int
	Truncated       bool // path budget or deadline hit with work left
	CrossDisagree   int
	SolverRestarts  int
}

type Shared struct {
	mu     sync.Mutex
	cond   *sync.Cond
	queue  [][]dec
	active int
	cfg    *Config
	St     Stats
	stop   bool
	witSeen, witKept map[string]int
	pops             int
}

// Engine is the per-worker exploration state.
type Engine struct {
	sh       *Shared
	cfg      *Config
	S        *Solver
	F        *Solver // fallback
	log      []dec
	pos      int
	pc       []*Term
	asserted int
	frameOn  bool
	vars     []*Term
	varSeen  map[string]bool
	chooses  map[string]bool
	nontriv  bool
	pathNo   int
	observe  []string
	funcs    map[string]bool
	base     *interpBase
	cur      *interpreter
	localQ   int

	nDecisions, nCachedSat, nCachedUnsat int64
	pcSet map[[2]uint64]bool // terms already in the path condition
}

// addPC appends a term to the path condition (once).
func (e *Engine) addPC(t *Term) {
	k := [2]uint64{t.h1, t.h2}
	if e.pcSet[k] {
		return
	}
	e.pcSet[k] = true
	e.pc = append(e.pc, t)
}

func (e *Engine) inPC(t *Term) bool { return e.pcSet[[2]uint64{t.h1, t.h2}] }

type pathAbort struct{ why string }

func (e *Engine) newSym(name string, sort Sort) *Term {
	v := Var(name, sort)
	if !e.varSeen[name] {
		e.varSeen[name] = true
		e.vars = append(e.vars, v)
	}
	return v
}

func (e *Engine) solver() *Solver {
	if e.S == nil || e.S.dead || e.S.Queries > 4000 {
		if e.S != nil {
			e.S.Close()
			e.sh.mu.Lock()
			e.sh.St.SolverRestarts++
			e.sh.mu.Unlock()
		}
		e.S = NewSolver(Z3, e.cfg.FeasTimeoutMs)
	}
	return e.S
}

func (e *Engine) endPathFrame() {}

// slice returns the path-condition terms that (transitively) share a variable with
// the query term (constraint independence): the rest of the path condition is
// satisfiable on its own (every branch taken was checked) and cannot affect the verdict.
func (e *Engine) slice(extra *Term) []*Term {
	if extra == nil {
		return e.pc
	}
	rel := extra.vs
	used := make([]bool, len(e.pc))
	var out []*Term
	for changed := true; changed; {
		changed = false
		for i, p := range e.pc {
			if used[i] || len(p.vs) == 0 {
				continue
			}
			if intersects(p.vs, rel) {
				used[i] = true
				out = append(out, p)
				rel = mergeVars(rel, p.vs)
				changed = true
			}
		}
	}
	return out
}

var (
	qcacheMu sync.RWMutex
	qcache   = map[[2]uint64]string{}
)

func (e *Engine) note(verdict string, solver string, d time.Duration) {
	e.sh.mu.Lock()
	e.sh.St.Queries[verdict]++
	e.sh.St.QueriesBy[solver]++
	e.sh.St.SolverDur += d
	e.sh.mu.Unlock()
}

// query checks pc ∧ extra (on the relevant slice of pc unless a full model is wanted).
// timeoutMs applies to this query only.
func (e *Engine) query(extra *Term, wantModel bool, timeoutMs int) (string, map[string]uint64) {
	terms := e.pc
	if !wantModel {
		terms = e.slice(extra)
	}
	var key [2]uint64
	if !wantModel {
		key = [2]uint64{0x1234567, 0x89abcdef}
		for _, t := range terms {
			// order-insensitive combination
			key[0] += t.h1 * 0x9e3779b97f4a7c15
			key[1] ^= mix(t.h2, 0x5555)
		}
		if extra != nil {
			key[0] = mix(key[0], extra.h1)
			key[1] = mix(key[1], extra.h2)
		}
		qcacheMu.RLock()
		v, ok := qcache[key]
		qcacheMu.RUnlock()
		if ok {
			if v == "sat" {
				e.nCachedSat++
			} else {
				e.nCachedUnsat++
			}
			return v, nil
		}
	}
	s := e.solver()
	s.Push()
	for _, t := range terms {
		s.Assert(t)
	}
	if extra != nil {
		s.Assert(extra)
	}
	if timeoutMs > 0 {
		s.send(fmt.Sprintf("(set-option :timeout %d)", timeoutMs))
		s.budget = time.Duration(timeoutMs)*time.Millisecond + 5*time.Second
	}
	r, d := s.Check()
	e.note(r, string(s.Kind), d)
	if !wantModel && r != "unknown" {
		qcacheMu.Lock()
		qcache[key] = r
		qcacheMu.Unlock()
	}
	if SlowLog != nil && d > SlowThreshold {
		x := "<pc only>"
		if extra != nil {
			x = extra.Plain()
		}
		if len(x) > 400 {
			x = x[:400]
		}
		fmt.Fprintf(SlowLog, "SLOW %.1fs %s slice=%d/%d %s: %s\n", d.Seconds(), r, len(terms), len(e.pc), e.cur.where(), x)
	}
	var m map[string]uint64
	if r == "sat" && wantModel {
		m = s.Model(e.vars)
	}
	if !s.dead {
		s.Pop()
	}
	return r, m
}

// SlowLog, when set, receives a line for every query slower than 2 s.
var SlowLog io.Writer

// SlowThreshold is the duration above which a query is logged to SlowLog.
var SlowThreshold = 2 * time.Second

// queryFallback asks a second solver (fresh context) for pc ∧ extra.
func (e *Engine) queryFallback(extra *Term, wantModel bool, timeoutMs int) (string, map[string]uint64) {
	if e.F != nil {
		e.F.Close()
	}
	e.F = NewSolver(CVC5, timeoutMs)
	s := e.F
	terms := e.pc
	if !wantModel {
		terms = e.slice(extra)
	}
	for _, p := range terms {
		s.Assert(p)
	}
	if extra != nil {
		s.Assert(extra)
	}
	r, d := s.Check()
	e.note(r, string(s.Kind), d)
	var m map[string]uint64
	if r == "sat" && wantModel {
		m = s.Model(e.vars)
	}
	s.Close()
	e.F = nil
	return r, m
}

func (e *Engine) pushAlt(alt []dec) {
	e.sh.mu.Lock()
	e.sh.queue = append(e.sh.queue, alt)
	e.sh.cond.Signal()
	e.sh.mu.Unlock()
}

// decide resolves a symbolic branch condition, forking when both sides are feasible.
func (e *Engine) decide(c *Term) bool {
	if c.IsConst() {
		return c.Val == 1
	}
	// already decided on this path (loops re-evaluate the same condition)
	if e.inPC(c) {
		return true
	}
	if e.inPC(Not(c)) {
		return false
	}
	var d bool
	if e.pos < len(e.log) {
		d = e.log[e.pos].B
	} else {
		e.nontriv = true
		e.pathLimits()
		rt, _ := e.query(c, false, e.cfg.FeasTimeoutMs)
		if rt == "unsat" {
			d = false
		} else {
			rf, _ := e.query(Not(c), false, e.cfg.FeasTimeoutMs)
			if rf == "unsat" {
				d = true
			} else {
				alt := make([]dec, len(e.log)+1)
				copy(alt, e.log)
				alt[len(e.log)] = dec{B: false}
				e.pushAlt(alt)
				d = true
			}
		}
		e.log = append(e.log, dec{B: d})
	}
	e.pos++
	if d {
		e.addPC(c)
	} else {
		e.addPC(Not(c))
	}
	e.nDecisions++
	return d
}

// pathLimits ends a path whose decision depth passes the unwinding bound (a loop whose
// trip count depends on a symbolic value) or that is still deciding after the harness
// deadline: both are reported as truncation, never as success.
func (e *Engine) pathLimits() {
	max := e.cfg.MaxDecisions
	if max == 0 {
		max = 4000
	}
	if len(e.log) > max {
		panic(unsupported{"step budget exhausted (decision depth: a loop bounded only by a symbolic value)"})
	}
	if !e.cfg.Deadline.IsZero() && time.Now().After(e.cfg.Deadline.Add(20*time.Second)) {
		panic(unsupported{"step budget exhausted (deadline passed inside a path)"})
	}
}

// concretize enumerates the feasible values of a bit-vector term (by forking) and
// returns the one chosen on this path.
func (e *Engine) concretize(t *Term, what string) uint64 {
	if t.IsConst() {
		return t.Val
	}
	for n := 0; ; n++ {
		if n > 4096 {
			unsup("concretize %s: too many values", what)
		}
		var cand uint64
		var d bool
		if e.pos < len(e.log) {
			cand, d = e.log[e.pos].V, e.log[e.pos].B
		} else {
			e.nontriv = true
			e.pathLimits()
			r, m := e.queryValue(t)
			if r != "sat" {
				// pc infeasible or unknown: cannot enumerate
				if r == "unsat" {
					panic(pathAbort{"concretize: infeasible"})
				}
				unsup("concretize %s: solver %s", what, r)
			}
			cand = m
			// is another value possible?
			ro, _ := e.query(Not(Eq(t, konst(t.Sort, cand))), false, e.cfg.FeasTimeoutMs)
			d = true
			if ro != "unsat" {
				alt := make([]dec, len(e.log)+1)
				copy(alt, e.log)
				alt[len(e.log)] = dec{B: false, V: cand}
				e.pushAlt(alt)
			}
			e.log = append(e.log, dec{B: true, V: cand})
		}
		e.pos++
		eq := Eq(t, konst(t.Sort, cand))
		if d {
			e.addPC(eq)
			return cand
		}
		e.addPC(Not(eq))
	}
}

func (e *Engine) queryValue(t *Term) (string, uint64) {
	s := e.solver()
	s.Push()
	tmp := Var("cz!tmp", t.Sort)
	for _, p := range e.slice(t) {
		s.Assert(p)
	}
	s.Assert(Eq(tmp, t))
	r, d := s.Check()
	e.note(r, string(s.Kind), d)
	var v uint64
	if r == "sat" {
		v = s.Model([]*Term{tmp})["cz!tmp"]
	}
	if !s.dead {
		s.Pop()
	}
	return r, v
}

func (e *Engine) assume(v value) {
	c := boolTerm(v)
	if c.IsTrue() {
		return
	}
	if c.IsFalse() {
		panic(pathAbort{"assume(false)"})
	}
	if e.pos >= len(e.log) {
		// only check feasibility on fresh ground; on the re-executed prefix it was checked before
		r, _ := e.query(c, false, e.cfg.FeasTimeoutMs)
		if r == "unsat" {
			panic(pathAbort{"assume infeasible"})
		}
	}
	e.addPC(c)
}

func (e *Engine) choices(m map[string]uint64) map[string]uint64 {
	out := map[string]uint64{}
	for n := range e.chooses {
		if v, ok := m[n]; ok {
			out[n] = v
		}
	}
	return out
}

// wantWitness: a few witnesses per distinct reason a path was abandoned.
// The first few abandoned paths per reason and then every 23rd are witnessed (spread over
// the exploration order), at most 40 per reason.
func (e *Engine) wantWitness(msg string) bool {
	e.sh.mu.Lock()
	defer e.sh.mu.Unlock()
	if e.sh.witSeen == nil {
		e.sh.witSeen, e.sh.witKept = map[string]int{}, map[string]int{}
	}
	e.sh.witSeen[msg]++
	n := e.sh.witSeen[msg]
	if (n <= 6 || n%23 == 0) && e.sh.witKept[msg] < 40 {
		e.sh.witKept[msg]++
		return true
	}
	return false
}

func (e *Engine) reportWitness(msg string, m map[string]uint64, detail string) {
	e.sh.mu.Lock()
	defer e.sh.mu.Unlock()
	e.sh.St.ViolCount["unsupported:"+msg]++
	e.sh.St.Viol = append(e.sh.St.Viol, Violation{Kind: "unsupported", Label: msg, Model: m, Choices: e.choices(m), Path: e.pathNo, Detail: detail})
}

func (e *Engine) report(kind, label string, m map[string]uint64, detail string) {
	e.sh.mu.Lock()
	defer e.sh.mu.Unlock()
	key := kind + ":" + label
	e.sh.St.ViolCount[key]++
	if e.sh.St.ViolCount[key] <= e.cfg.MaxViolations {
		e.sh.St.Viol = append(e.sh.St.Viol, Violation{Kind: kind, Label: label, Model: m, Choices: e.choices(m), Path: e.pathNo, Detail: detail})
	}
}

func (e *Engine) assert(v value, label string) {
	c := boolTerm(v)
	e.sh.mu.Lock()
	e.sh.St.Obligations++
	e.sh.mu.Unlock()
	switch {
	case c.IsTrue():
		e.sh.mu.Lock()
		e.sh.St.DischargedSyn++
		e.sh.mu.Unlock()
		return
	case c.IsFalse():
		r, m := e.query(nil, true, e.cfg.AssertTimeMs)
		if r == "sat" {
			e.report("assert", label, m, "concretely false on this path")
		} else if r == "unknown" {
			e.sh.mu.Lock()
			e.sh.St.Inconclusive++
			e.sh.mu.Unlock()
		}
		panic(pathAbort{"assert(false)"})
	}
	e.nontriv = true
	neg := Not(c)
	var m map[string]uint64
	var r string
	used := "z3"
	if neg.fp && e.cfg.FallbackMs > 0 {
		// floating-point obligations: cvc5 first (measured 3-10x faster than z3 on FP), z3 second
		r, _ = e.queryFallback(neg, false, e.cfg.FallbackMs)
		used = "cvc5"
		if r == "unknown" {
			r, _ = e.query(neg, false, e.cfg.AssertTimeMs)
			used = "z3"
		}
	} else {
		r, _ = e.query(neg, false, e.cfg.AssertTimeMs)
		if r == "unknown" && e.cfg.FallbackMs > 0 {
			r, _ = e.queryFallback(neg, false, e.cfg.FallbackMs)
			used = "cvc5"
		}
	}
	if r == "sat" {
		// full path condition, for a complete model
		r, m = e.query(neg, true, e.cfg.AssertTimeMs)
		if r == "unknown" && e.cfg.FallbackMs > 0 {
			r, m = e.queryFallback(neg, true, e.cfg.FallbackMs)
		}
	} else if e.cfg.CrossCheck && r != "unknown" {
		r2, _ := e.queryFallback(neg, false, e.cfg.FallbackMs)
		if r2 != "unknown" && r2 != r {
			e.sh.mu.Lock()
			e.sh.St.CrossDisagree++
			e.sh.mu.Unlock()
			r = "unknown"
		}
	}
	_ = used
	e.sh.mu.Lock()
	switch r {
	case "unsat":
		e.sh.St.DischargedSolv++
	case "unknown":
		e.sh.St.Inconclusive++
	}
	e.sh.mu.Unlock()
	if r == "sat" {
		e.report("assert", label, m, "")
	}
	e.addPC(c)
}

// truth converts a branch condition to a Go bool, forking if symbolic.
func (fr *frame) truth(v value) bool {
	switch c := v.(type) {
	case bool:
		return c
	case symv:
		return fr.i.eng.decide(c.T)
	}
	panic(fmt.Sprintf("truth: %T", v))
}

// ---- driver ----

func isEngineTypeError(msg string) bool {
	return strings.Contains(msg, "interp.symv") || strings.Contains(msg, "interp.symStr") || strings.Contains(msg, "interp.symKey")
}

func (e *Engine) runPath(prefix []dec) {
	e.log = prefix
	e.pos = 0
	e.pc = e.pc[:0]
	e.pcSet = map[[2]uint64]bool{}
	e.vars = e.vars[:0]
	e.varSeen = map[string]bool{}
	e.chooses = map[string]bool{}
	e.nontriv = false
	e.observe = e.observe[:0]
	e.sh.mu.Lock()
	e.sh.St.Paths++
	e.pathNo = e.sh.St.Paths
	e.sh.mu.Unlock()

	i := e.base.newInterp(e)
	e.cur = i
	kind, msg := "ok", ""
	func() {
		defer func() {
			if r := recover(); r != nil {
				switch p := r.(type) {
				case unsupported:
					kind, msg = "unsupported", p.msg
				case pathAbort:
					kind, msg = "abort", p.why
				case targetPanic:
					kind, msg = "panic", toString(p.v)
				case runtime.Error:
					kind, msg = "panic", p.Error()
					if isEngineTypeError(msg) {
						kind = "unsupported"
						msg = "engine: " + msg + " @ " + i.where()
					}
				case string:
					kind, msg = "panic", p
					if isEngineTypeError(msg) || strings.HasPrefix(msg, "unexpected") || strings.HasPrefix(msg, "unsupported conversion") || strings.HasPrefix(msg, "cannot convert") || strings.HasPrefix(msg, "no code for function") || strings.HasPrefix(msg, "get: no value") {
						kind = "unsupported"
						msg = "engine: " + msg + " @ " + i.where()
					}
				default:
					kind, msg = "unsupported", fmt.Sprint(r)
				}
			}
		}()
		i.initMutable()
		fn := e.cfg.Main.Func(e.cfg.Harness)
		if fn == nil {
			panic(unsupported{"no harness function " + e.cfg.Harness})
		}
		call(i, nil, token.NoPos, fn, nil)
	}()

	switch kind {
	case "unsupported":
		if strings.HasPrefix(msg, "step budget") {
			if e.cfg.ReportBudget {
				r, m := e.query(nil, true, e.cfg.AssertTimeMs)
				if r == "sat" {
					e.report("budget", "step budget exhausted (possible non-termination)", m, i.where())
				}
			}
		} else if e.wantWitness(msg) {
			// the engine cannot model what the code did on this path: keep one concrete
			// input that drives the real build down it (replayed natively by the caller), so
			// the path is at least witnessed rather than silently dropped
			r, m := e.query(nil, true, e.cfg.AssertTimeMs)
			if r == "sat" {
				e.reportWitness(msg, m, i.where())
			}
		}
	case "panic":
		r, m := e.query(nil, true, e.cfg.AssertTimeMs)
		if r != "unsat" {
			e.report("panic", normPanic(msg), m, msg+" @ "+i.where())
		}
	case "ok":
		if e.cfg.SampleEvery > 0 && e.pathNo%e.cfg.SampleEvery == 0 {
			r, m := e.query(nil, true, e.cfg.FeasTimeoutMs)
			if r == "sat" {
				ps := PathSample{Path: e.pathNo, Model: m, Choices: e.choices(m), Out: strings.Join(e.observe, "\n"), Decision: len(e.log), PCSize: len(e.pc)}
				e.sh.mu.Lock()
				if len(e.sh.St.Samples) < e.cfg.SampleCap {
					e.sh.St.Samples = append(e.sh.St.Samples, ps)
				}
				e.sh.mu.Unlock()
			}
		}
	}
	e.endPathFrame()
	e.sh.mu.Lock()
	st := &e.sh.St
	st.Instrs += i.instrs
	st.Intercepted += i.intercepted
	st.Decisions += e.nDecisions
	st.Queries["cached-sat"] += int(e.nCachedSat)
	st.Queries["cached-unsat"] += int(e.nCachedUnsat)
	e.nDecisions, e.nCachedSat, e.nCachedUnsat = 0, 0, 0
	if e.nontriv {
		st.PathsNontrivial++
	}
	switch kind {
	case "unsupported":
		if strings.HasPrefix(msg, "step budget") {
			st.BudgetPaths++
		}
		st.Unsup[msg]++
	case "abort":
		st.AssumePruned++
	}
	for f := range i.symFuncs {
		st.Funcs[f] = true
	}
	e.sh.mu.Unlock()
}

func normPanic(msg string) string {
	// strip addresses / numbers so that equal panics group together
	if i := strings.Index(msg, "["); i > 0 && strings.Contains(msg, "index out of range") {
		return "index out of range"
	}
	if len(msg) > 120 {
		msg = msg[:120]
	}
	return msg
}

func (sh *Shared) worker(id int, base *interpBase, wg *sync.WaitGroup) {
	defer wg.Done()
	e := &Engine{sh: sh, cfg: sh.cfg, base: base}
	defer func() {
		if e.S != nil {
			e.S.Close()
		}
	}()
	for {
		sh.mu.Lock()
		for len(sh.queue) == 0 && sh.active > 0 && !sh.stop {
			sh.cond.Wait()
		}
		if sh.stop || (len(sh.queue) == 0 && sh.active == 0) {
			sh.cond.Broadcast()
			sh.mu.Unlock()
			return
		}
		if sh.St.Paths >= sh.cfg.MaxPaths || (!sh.cfg.Deadline.IsZero() && time.Now().After(sh.cfg.Deadline)) {
			sh.St.Truncated = true
			sh.stop = true
			sh.cond.Broadcast()
			sh.mu.Unlock()
			return
		}
		// depth first, but every fourth path starts from the shallowest pending alternative:
		// when a budget cuts the exploration short, every top-level alternative of the
		// harness has been entered rather than only the first ones in order
		n := len(sh.queue) - 1
		sh.pops++
		if sh.pops%4 == 0 {
			for k := range sh.queue {
				if len(sh.queue[k]) < len(sh.queue[n]) {
					n = k
				}
			}
		}
		prefix := sh.queue[n]
		sh.queue = append(sh.queue[:n], sh.queue[n+1:]...)
		sh.active++
		sh.mu.Unlock()

		e.runPath(prefix)

		sh.mu.Lock()
		sh.active--
		if len(sh.queue) == 0 && sh.active == 0 {
			sh.cond.Broadcast()
		}
		sh.mu.Unlock()
	}
}

// Explore runs the harness symbolically and returns the aggregated statistics.
func Explore(cfg *Config) *Stats {
	sh := &Shared{cfg: cfg}
	sh.cond = sync.NewCond(&sh.mu)
	sh.St = Stats{Queries: map[string]int{}, QueriesBy: map[string]int{}, Unsup: map[string]int{}, Reach: map[string]int{}, ViolCount: map[string]int{}, Funcs: map[string]bool{}}
	sh.queue = [][]dec{{}}
	if cfg.MaxViolations == 0 {
		cfg.MaxViolations = 3
	}
	if cfg.SampleCap == 0 {
		cfg.SampleCap = 64
	}
	base := newInterpBase(cfg)
	var wg sync.WaitGroup
	for w := 0; w < cfg.Workers; w++ {
		wg.Add(1)
		go sh.worker(w, base, &wg)
	}
	wg.Wait()
	sort.Slice(sh.St.Viol, func(a, b int) bool { return sh.St.Viol[a].Path < sh.St.Viol[b].Path })
	return &sh.St
}
