package ext

import (
	"github.com/alligator/jqawk/cli"
	lang "github.com/alligator/jqawk/src"
	"github.com/alligator/jqawk/zzverif/vh"
)

// C10: stdout, JSON output and outcome are a function of program, selectors and input.
// Under symgo every range over a Go map draws its order from a symbolic permutation
// (vh.MapOrders): two runs with independent permutations must agree.

var c10Progs = []string{
	"{ print }",
	"{ for (k, v in $) print k, v }",
	"{ for (k in $) { n++; last = k }; print n, last }",
	"{ print $.o, [$.o] }",
	"{ x = $; x.z = 1; print x }",
	"{ print json($) }",
	"{ o = {b: 1, a: 2}; print o; for (k in o) print k }",
	"{ print $.pluck('c', 'a') }",
	"{ print num('12') + 1, json([1, {k: 2}]), $.length(); printf('%s|%v\n', 'p', 3) }",
	// constructs with several sub-expressions whose evaluation order shows (side effects, exit, errors)
	"{ n = 0; o = {first: n++, second: n++, third: n++}; print o.first, o.second, o.third, n }",
	"{ q = [1, 2, 3]; o = {head: q.popfirst(), then: q.popfirst()}; print o, q }",
	"function f(a, b, c) { return [a, b, c] }\n{ n = 0; print f(n++, n++, n++), [n++, n++], n }",
	"{ x = match ({a: 1, b: 2, c: 3}) { {a: p, b: q, c: r} => [p, q, r] }\nprint x }",
	"function stop() { exit }\n{ print 'before'; o = {a: stop(), b: 1 / 0, c: nosuch()}; print 'after' }",
	"{ n = 0; print {z: n++, a: n++}, n; printf('%v %v %v\\n', n++, n++, n) }",
	"{ a = [3, 1, 2]; a.push(0); print a.sort(), a.contains(3), a.pop(), a.popfirst(), a.length(), 'Ab'.upper(), 'Ab'.lower(), 'a,b'.split(','), 2.5 .floor(), 2.5 .ceil(), 2.5 .round() }",
}

type c10Result struct {
	out, json string
	k, jk     int
}

func c10Run(prog string, doc any) c10Result {
	var out vh.Out
	ev, err := lang.EvalProgram(prog, []lang.InputFile{{Name: "f", Reader: &vh.DocStream{Items: []any{doc}}}}, nil, &out, false)
	r := c10Result{out: out.String(), k: legal(err, "EvalProgram")}
	if err == nil {
		j, jerr := ev.GetRootJson()
		r.json = j
		if jerr != nil {
			r.jk = 1
		}
	}
	return r
}

// VHC10Orders: repeated runs agree whatever order Go iterates maps in.
func VHC10Orders() {
	prog := c10Progs[vh.Choose("prog", len(c10Progs))]
	b := vh.Choose("b", 2) == 1 // concrete: the JSON text level is not modelled symbolically
	var doc any
	switch vh.Choose("doc", 4) {
	case 3: // keys that are numerically equal or number-like: an order must still be total
		doc = map[string]any{"1": b, "1.0": 2.0, "07": "x", "7": 3.0, "nan": 1.0, "-0": 0.0, "0": 5.0}
	case 0:
		doc = map[string]any{"b": b, "a": 2.0}
	case 1:
		doc = map[string]any{"c": 1.0, "a": b, "b": "x"}
	case 2:
		doc = map[string]any{"o": map[string]any{"y": b, "x": 1.0}, "a": 2.0}
	}
	mode := 1
	if vh.Thorough() {
		mode = 1 + vh.Choose("ordermode", 2)
	}
	vh.MapOrders(mode)
	first := c10Run(prog, doc)
	n := vh.Repeats(60)
	for i := 0; i < n; i++ {
		vh.MapOrders(mode)
		again := c10Run(prog, doc)
		vh.Assert(again.k == first.k && again.jk == first.jk, "C10: repeating a run yields the same outcome")
		vh.Assert(again.out == first.out, "C10: repeating a run yields byte-identical standard output")
		vh.Assert(again.json == first.json, "C10: repeating a run yields byte-identical JSON output")
	}
	vh.MapOrders(0)
	vh.Reach("runs compared")
}

var c10Residue = []string{
	"BEGIN { a = [3, 1]; a.push(2); print a.sort(), a.length(), a.pop(), a.popfirst(), a.contains(1) }",
	"BEGIN { o = {k: 1}; print o.length(), o.pluck('k'); s = 'aB'; print s.upper(), s.lower(), s.split(''), s.length() }",
	"BEGIN { n = 2.5; print n.floor(), n.ceil(), n.round(), num('4'), json([1]) ; printf('%s', 'x') }",
	"function f(n) { if (n > 0) return f(n - 1); return 0 }\nBEGIN { print f(50); x = match (1) { 1 => 'a' } }",
	"BEGIN { a = []; b = []; a.push(b.push(1)); print a, b; exit }",
	"BEGIN { print 1 / 0 }",
	// runs that fail half way through a builtin that builds its result piecewise
	"BEGIN { printf('left over %s', 5) }",
	"BEGIN { printf('abc %5q|', 1) }",
	"BEGIN { x = json([1, [2, nosuchfn]]); print 'a'.split(5) }",
	// a run that uses the names of builtins and methods for its own variables
	"BEGIN { json = 1; num = 'n'; printf = [2]; length = 3; push = 4; pluck = 5 }",
	"BEGIN { for (num in [1, 2]) { json = num } for (printf, json in {a: 1}) { } }",
	"function num(x) { return 'mine' }\nfunction json(x) { return 'mine' }\nBEGIN { print num(1), json(2) }",
	"BEGIN { a = [1]; a.length = 5; o = {}; o.pluck = 1; s = 'x'; x = match (1) { num => num, json => json } }",
}

// c10Probe: the deepest recursion the call-depth limit allows: one frame more (left behind
// by an earlier run, or counted in state shared between runs) and it fails.
const c10Probe = "function f(n) { if (n == 0) return 0\nreturn 1 + f(n - 1) }\n{ print f(4095) }"

// VHC10Residue: a run is not influenced by earlier, unrelated runs in the same process
// (prototype singletons, receiver bindings written into shared prototype cells, limits).
func VHC10Residue() {
	progs := append(append([]string{}, c10Progs...), c10Probe)
	prog := progs[vh.Choose("prog", len(progs))]
	qi := vh.Choose("earlier", len(c10Residue))
	q := c10Residue[qi]
	b := vh.Choose("b", 2) == 1 // concrete: the JSON text level is not modelled symbolically
	if prog == c10Probe && (qi > 3 || b) {
		return // the probe is expensive: four kinds of earlier run are enough for it
	}
	doc := map[string]any{"c": 1.0, "a": b}
	fresh := c10Run(prog, doc)
	var sink vh.Out
	_, _ = lang.EvalProgram(q, nil, nil, &sink, false)
	after := c10Run(prog, doc)
	vh.Reach("residue compared")
	vh.Assert(after.k == fresh.k && after.out == fresh.out && after.json == fresh.json, "C10: a run after unrelated earlier runs equals the same run on fresh state")
}

// VHC10Chunking: the results are a function of the input BYTES: the same stream handed
// over in two different partitions into read calls gives the same standard output, JSON
// output and outcome (also when the stream starts with bytes that are not JSON, such as
// a byte-order mark arriving in one piece or in two).
func VHC10Chunking() {
	b := vh.Choose("b", 2) == 1
	doc := map[string]any{"a": b, "k": []any{1.0, "x"}}
	g := vh.Bytes("g", 3)
	vh.Assume(vh.Not(vh.OneOf(g[0], " \t\n\r\"{[]}-0123456789tfn")))
	var items func() []any
	switch vh.Choose("stream", 5) {
	case 0:
		items = func() []any { return []any{doc, doc} }
	case 1: // three non-JSON bytes in front, delivered as 1 + 2 bytes or together, depending on the packing
		items = func() []any {
			return []any{vh.Fault{Kind: vh.Garbage, Text: g[:1]}, vh.Fault{Kind: vh.Garbage, Text: g[1:]}, doc}
		}
	case 2:
		items = func() []any { return []any{doc, vh.Fault{Kind: vh.Garbage, Text: g[:2]}, doc} }
	case 3:
		items = func() []any { return []any{doc, doc, vh.Fault{Kind: vh.Truncated, Text: "{\"t\": 1, \"b\":"}} }
	case 4:
		items = func() []any { return []any{doc, vh.Fault{Kind: vh.StrayClose, Text: "]"}, doc} }
	}
	prog := "{ print $.a, $.k; n++ }\nEND { print n }"
	run := func(mode int) c10Result {
		var out vh.Out
		ev, err := lang.EvalProgram(prog, []lang.InputFile{{Name: "f", Reader: &vh.DocStream{Items: items(), Mode: mode}}}, nil, &out, false)
		r := c10Result{out: out.String(), k: legal(err, "EvalProgram")}
		if err == nil {
			j, jerr := ev.GetRootJson()
			r.json = j
			if jerr != nil {
				r.jk = 1
			}
		}
		return r
	}
	m1, m2 := vh.Choose("m1", 5), vh.Choose("m2", 5)
	if m2 <= m1 {
		return
	}
	r1, r2 := run(m1), run(m2)
	vh.Reach("packings compared")
	vh.Assert(r1.k == r2.k && r1.jk == r2.jk, "C10: the outcome does not depend on how the input bytes are split into reads")
	vh.Assert(r1.out == r2.out && r1.json == r2.json, "C10: the output does not depend on how the input bytes are split into reads")
}

// VHC10Cli: what the command line writes with -o FILE is a function of this run's program
// and input alone: a FILE left behind by an earlier run (of a longer or shorter result) has
// no influence.
func VHC10Cli() {
	long := map[string]any{"k": []any{"a long value", "another long value", 12345.0}, "z": "tail"}
	short := map[string]any{"k": vh.Choose("b", 2) == 1}
	order := vh.Choose("order", 2) // which result the earlier run left behind
	first, second := long, short
	if order == 1 {
		first, second = short, long
	}
	run := func(doc any, existing string, has bool) vh.ProcResult {
		p := &vh.Proc{Texts: map[string]string{}, Data: map[string]*vh.DocStream{"in.json": {Items: []any{doc}}}}
		if has {
			p.Texts["out.json"] = existing
		}
		p.Args = []string{"-o", "out.json", "{ n++ }", "in.json"}
		return vh.RunCLI(cli.Run, p)
	}
	r1 := run(first, "", false)
	r2 := run(second, r1.Written["out.json"], true)
	fresh := run(second, "", false)
	vh.Reach("runs of the tool compared")
	vh.Assert(r1.Exit == 0 && r2.Exit == 0 && fresh.Exit == 0, "C10: the runs succeed")
	vh.Assert(r2.Written["out.json"] == fresh.Written["out.json"] && r2.Stdout == fresh.Stdout, "C10: the JSON output file does not depend on what an earlier run left in it")
}
