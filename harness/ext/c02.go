package ext

import (
	lang "github.com/alligator/jqawk/src"
	"github.com/alligator/jqawk/zzverif/vh"
)

// C02 reference schedule (DESIGN.md §3.4): BEGIN rules; for each file, value and
// selector: BEGINFILE rules, pattern rules per element, ENDFILE rules; END rules.
// `next` abandons the remaining rules for the element, `exit` ends the run successfully.

const (
	rBegin = iota
	rEnd
	rBeginFile
	rEndFile
	rPattern  // $.p { ... next / exit ... }
	rAlways   // pattern-less rule
	rBeginX   // BEGIN { ...; exit }
	rBodyless // a pattern without a body: prints $
	nRuleKinds
)

func c02RuleText(kind, i int) string {
	id := itoa(i)
	switch kind {
	case rBegin:
		return "BEGIN { print 'B" + id + "', $ is null; $ = 'set in BEGIN' }" // a later rule must not see this
	case rEnd:
		return "END { print 'E" + id + "', $ is null; $ = 'set in END' }"
	case rBeginFile:
		return "BEGINFILE { print 'BF" + id + "', $file, $ is array, $ is object; if ($.fx) exit; print 'bf" + id + "' }"
	case rEndFile:
		return "ENDFILE { print 'EF" + id + "', $file, $ is array, $ is object }"
	case rPattern:
		return "$.p { print 'R" + id + "', $file; if ($ is object && $.i is number) print 'idx', $index == $.i; if ($.n) next; if ($.x) exit; print 'r" + id + "' }"
	case rAlways:
		return "{ print 'A" + id + "', $file }"
	case rBeginX:
		return "BEGIN { print 'BX" + id + "'; exit; print 'unreachable' }"
	case rBodyless:
		return "$.p"
	}
	panic("rule kind")
}

type c02Elem struct {
	p, n, x bool
	obj     bool // an object with flags (else a scalar: every flag reads as falsy)
	inArr   bool
	idx     int
	fx      bool
	hasFx   bool
}

// render is the print form of the element (keys in sorted order).
func (e c02Elem) render() string {
	s := "{"
	if e.hasFx {
		s += "\"fx\": " + bstr(e.fx) + ", "
	}
	if e.inArr {
		s += "\"i\": " + itoa(e.idx) + ", "
	}
	return s + "\"n\": " + bstr(e.n) + ", \"p\": " + bstr(e.p) + ", \"x\": " + bstr(e.x) + "}"
}

type c02Val struct {
	shape int // 0 array, 1 object, 2 scalar, 3 null
	elems []c02Elem
	fx    bool // BEGINFILE exit flag (object roots)
}

func c02MkElem(name string, inArr bool, idx int) (any, c02Elem) {
	e := c02Elem{p: vh.Bool(name + "p"), n: vh.Bool(name + "n"), x: vh.Bool(name + "x"), obj: true, inArr: inArr, idx: idx}
	m := map[string]any{"p": e.p, "n": e.n, "x": e.x}
	if inArr {
		m["i"] = float64(idx)
	}
	return m, e
}

func c02MkVal(name string, shape int) (any, c02Val) {
	switch shape {
	case 0, 1, 2: // array of length shape
		v := c02Val{shape: 0}
		arr := make([]any, shape)
		for i := 0; i < shape; i++ {
			var e c02Elem
			arr[i], e = c02MkElem(name+"e"+itoa(i), true, i)
			v.elems = append(v.elems, e)
		}
		return arr, v
	case 3:
		d, e := c02MkElem(name+"o", false, 0)
		fx := vh.Bool(name + "fx")
		d.(map[string]any)["fx"] = fx
		e.fx, e.hasFx = fx, true
		return d, c02Val{shape: 1, elems: []c02Elem{e}, fx: fx}
	case 4:
		return 5.0, c02Val{shape: 2, elems: []c02Elem{{}}}
	}
	return nil, c02Val{shape: 3, elems: []c02Elem{{}}}
}

func bstr(b bool) string {
	if b {
		return "true"
	}
	return "false"
}

// c02Spec computes the expected output; done=true when exit ended the run.
func c02Spec(kinds []int, files [][]c02Val, names []string) string {
	out := ""
	for i, k := range kinds {
		switch k {
		case rBegin:
			out += "B" + itoa(i) + " true\n"
		case rBeginX:
			return out + "BX" + itoa(i) + "\n"
		}
	}
	for fi, vals := range files {
		for _, v := range vals {
			isArr, isObj := bstr(v.shape == 0), bstr(v.shape == 1)
			for i, k := range kinds {
				if k == rBeginFile {
					out += "BF" + itoa(i) + " " + names[fi] + " " + isArr + " " + isObj + "\n"
					if v.shape == 1 && v.fx {
						return out
					}
					out += "bf" + itoa(i) + "\n"
				}
			}
			for _, e := range v.elems {
			rules:
				for i, k := range kinds {
					switch k {
					case rBodyless:
						if e.obj && e.p {
							out += e.render() + "\n"
						}
					case rAlways:
						out += "A" + itoa(i) + " " + names[fi] + "\n"
					case rPattern:
						if !(e.obj && e.p) {
							continue
						}
						out += "R" + itoa(i) + " " + names[fi] + "\n"
						if e.inArr {
							out += "idx true\n"
						}
						if e.n {
							break rules
						}
						if e.x {
							return out
						}
						out += "r" + itoa(i) + "\n"
					}
				}
			}
			for i, k := range kinds {
				if k == rEndFile {
					out += "EF" + itoa(i) + " " + names[fi] + " " + isArr + " " + isObj + "\n"
				}
			}
		}
	}
	for i, k := range kinds {
		if k == rEnd {
			out += "E" + itoa(i) + " true\n"
		}
	}
	return out
}

// VHC02Schedule: rule mixes x input configurations, pattern truth / next / exit symbolic.
func VHC02Schedule() {
	nslots := 3
	if vh.Thorough() {
		nslots = 4
	}
	kinds := make([]int, nslots)
	prog := ""
	for i := range kinds {
		kinds[i] = vh.Choose("rule"+itoa(i), nRuleKinds)
		if i > 0 && kinds[i-1] == rBodyless && kinds[i] == rAlways {
			return // `pattern` NEWLINE `{ body }` is ONE rule in this grammar (newlines are not significant there)
		}
		prog += c02RuleText(kinds[i], i) + "\n"
	}
	// input configuration: which files hold which value shapes
	var cfg [][]int
	switch vh.Choose("config", 8) {
	case 0:
		cfg = [][]int{}
	case 1:
		cfg = [][]int{{}}
	case 2:
		cfg = [][]int{{2}}
	case 3:
		cfg = [][]int{{1, 3}}
	case 4:
		cfg = [][]int{{0, 4}, {1}}
	case 5:
		cfg = [][]int{{3}, {5}}
	case 6:
		cfg = [][]int{{1}, {}, {1}}
	case 7:
		cfg = [][]int{{4, 2}}
	}
	names := []string{"f1", "f2", "f3"}
	var files []lang.InputFile
	var spec [][]c02Val
	for fi, shapes := range cfg {
		var items []any
		var vals []c02Val
		for vi, sh := range shapes {
			d, v := c02MkVal("f"+itoa(fi)+"v"+itoa(vi), sh)
			items = append(items, d)
			vals = append(vals, v)
		}
		files = append(files, lang.InputFile{Name: names[fi], Reader: &vh.DocStream{Items: items}})
		spec = append(spec, vals)
	}
	var out vh.Out
	_, err := lang.EvalProgram(prog, files, nil, &out, false)
	k := legal(err, "EvalProgram")
	want := c02Spec(kinds, spec, names)
	vh.Reach("schedule evaluated")
	vh.Assert(k == OK, "C02: a run of well-formed rules over well-formed input succeeds")
	vh.Assert(out.String() == want, "C02: rules run in awk order with $, $index and $file bound")
}

// VHC02Selectors: each selector in the order given, per value; BEGINFILE sees the
// selected root; $index restarts for every selected array.
func VHC02Selectors() {
	nsel := vh.Choose("nsel", 4)
	order := vh.Choose("order", 3)
	all := []string{"$.s1", "$.s2", "$.s3"}
	switch order {
	case 1:
		all = []string{"$.s3", "$.s1", "$.s2"}
	case 2:
		all = []string{"$.s1", "$.s1", "$.s2"} // the same selection twice: the second pass sees the value as read, not as the rules left it
	}
	sels := all[:nsel]
	p1 := vh.Bool("p1")
	p2 := vh.Bool("p2")
	doc := func(tag string) any {
		return map[string]any{
			"s1": []any{map[string]any{"t": tag + "a", "p": p1, "e": true}, map[string]any{"t": tag + "b", "p": p2, "e": true}},
			"s2": map[string]any{"t": tag + "o", "p": true},
			"s3": []any{map[string]any{"t": tag + "c", "p": true, "e": true}, map[string]any{"t": tag + "d", "p": p1, "e": true}, map[string]any{"t": tag + "f", "p": p2, "e": true}},
			"t":  tag + "root", "p": true,
		}
	}
	prog := "BEGINFILE { print 'BF', $ is array }\n$.p { print $.t; $.t = 'seen'; $.extra = 1 }\n$.p && $.e { print 'i', $index }\nENDFILE { print 'EF', $ is array }\nEND { print 'E' }"
	var out vh.Out
	ds := &vh.DocStream{Items: []any{doc("x"), doc("y")}}
	_, err := lang.EvalProgram(prog, []lang.InputFile{{Name: "f", Reader: ds}}, sels, &out, false)
	k := legal(err, "EvalProgram")
	want := ""
	elem := func(on bool, t string, i int) {
		if on {
			want += t + "\ni " + itoa(i) + "\n"
		}
	}
	for _, tag := range []string{"x", "y"} {
		if nsel == 0 {
			want += "BF false\n" + tag + "root\nEF false\n"
			continue
		}
		for _, sel := range sels {
			switch sel {
			case "$.s1":
				want += "BF true\n"
				elem(p1, tag+"a", 0)
				elem(p2, tag+"b", 1)
				want += "EF true\n"
			case "$.s2":
				want += "BF false\n" + tag + "o\nEF false\n"
			case "$.s3":
				want += "BF true\n"
				elem(true, tag+"c", 0)
				elem(p1, tag+"d", 1)
				elem(p2, tag+"f", 2)
				want += "EF true\n"
			}
		}
	}
	want += "E\n"
	vh.Reach("selectors evaluated")
	vh.Assert(k == OK && out.String() == want, "C02: every value is processed once per selector, in the order given, $index counting from 0 in every selected array")
}

// VHC02Jumps: `exit` and `next` raised inside a function that is called from any
// expression position (print argument, call argument, array / object item, operand,
// condition, index ...) act exactly like the statement: exit ends the run successfully
// without running anything further, next abandons the remaining rules for this element
// only.
func VHC02Jumps() {
	slot := c11Slots[vh.Choose("slot", len(c11Slots))]
	if len(slot) > 5 && (slot[:5] == "BEGIN" || slot[:5] == "{ pri" && false) {
		return
	}
	for i := 0; i+9 <= len(slot); i++ {
		if slot[i:i+9] == "BEGINFILE" || i+7 <= len(slot) && slot[i:i+7] == "ENDFILE" {
			return // next / exit in BEGINFILE and ENDFILE rules: VHC02Schedule
		}
	}
	jump := []string{"exit", "next"}[vh.Choose("jump", 2)]
	fire := vh.Bool("fire")
	prog := "function jmp(x) { if (x) " + jump + "\nreturn 1 }\n" + replaceAll(slot, "@", "jmp($.x)") + "\n{ print 'second' }\nEND { print 'end' }"
	rec := func(x bool) any { return map[string]any{"x": x, "arr": []any{1.0, 2.0}} }
	out, k := runProg(prog, []any{rec(fire), rec(false)})
	ref, kr := runProg(prog, []any{rec(false)})
	vh.Reach("jump placed")
	vh.Assert(k == OK && kr == OK, "C02: exit / next raised in a called function is not an error, wherever the call sits: "+lbl(slot))
	if !fire {
		vh.Assert(len(out) > len(ref) && out[len(out)-len(ref):] == ref, "C02: without the jump every element is processed alike: "+lbl(slot))
		return
	}
	if jump == "exit" {
		vh.Assert(c11Stopped(out) && !contains(out, "second") && !contains(out, "end"), "C02: exit inside a called function ends the run at once, END included: "+lbl(slot))
		return
	}
	// next: the first element stops at the jump, the second one is processed in full, END runs
	vh.Assert(len(out) >= len(ref) && out[len(out)-len(ref):] == ref, "C02: after next the following element is processed in full and END runs: "+lbl(slot))
	head := out[:len(out)-len(ref)]
	vh.Assert(c11Stopped(head) && !contains(head, "second"), "C02: next inside a called function abandons the remaining rules for this element: "+lbl(slot))
}

func contains(s, sub string) bool {
	for i := 0; i+len(sub) <= len(s); i++ {
		if s[i:i+len(sub)] == sub {
			return true
		}
	}
	return false
}
