package interp

// Per-function value numbering: frames keep SSA values in a slice instead of a map.

import (
	"sync"

	"golang.org/x/tools/go/ssa"
)

type funcInfo struct {
	idx  map[ssa.Value]int32
	n    int
	name string     // fn.String(), computed once
	ext  externalFn // external implementation, if any
	sym  bool       // ext accepts symbolic arguments
}

var funcInfos sync.Map // *ssa.Function -> *funcInfo

func infoOf(fn *ssa.Function) *funcInfo {
	if v, ok := funcInfos.Load(fn); ok {
		return v.(*funcInfo)
	}
	fi := &funcInfo{idx: map[ssa.Value]int32{}}
	add := func(v ssa.Value) {
		if _, ok := fi.idx[v]; !ok {
			fi.idx[v] = int32(len(fi.idx))
		}
	}
	for _, p := range fn.Params {
		add(p)
	}
	for _, fv := range fn.FreeVars {
		add(fv)
	}
	for _, l := range fn.Locals {
		add(l)
	}
	for _, b := range fn.Blocks {
		for _, in := range b.Instrs {
			if v, ok := in.(ssa.Value); ok {
				add(v)
			}
		}
	}
	fi.n = len(fi.idx)
	fi.name = fn.String()
	if fn.Parent() == nil {
		fi.ext = externals[fi.name]
		fi.sym = symAware[fi.name]
	}
	v, _ := funcInfos.LoadOrStore(fn, fi)
	return v.(*funcInfo)
}

// put stores the dynamic value of an SSA value. Values are never nil in the
// interpreter's representation; results of calls without results are stored as unit.
func (fr *frame) put(k ssa.Value, v value) {
	if v == nil {
		v = unit{}
	}
	fr.env[fr.info.idx[k]] = v
}

type unit struct{}
