package interp

// SMT term DAG: structurally hashed, constant-folding constructors, SMT-LIB2 printing.
// Terms are immutable and shareable between workers.

import (
	"fmt"
	"math"
	"math/bits"
	"strings"
	"sync"
)

type Sort uint8

const (
	SBool Sort = iota
	SBV8
	SBV16
	SBV32
	SBV64
	SFP // (_ FloatingPoint 11 53)
	SRM // RoundingMode
)

func (s Sort) String() string {
	switch s {
	case SBool:
		return "Bool"
	case SBV8:
		return "(_ BitVec 8)"
	case SBV16:
		return "(_ BitVec 16)"
	case SBV32:
		return "(_ BitVec 32)"
	case SBV64:
		return "(_ BitVec 64)"
	case SFP:
		return "(_ FloatingPoint 11 53)"
	case SRM:
		return "RoundingMode"
	}
	return "?"
}

func (s Sort) Bits() int {
	switch s {
	case SBV8:
		return 8
	case SBV16:
		return 16
	case SBV32:
		return 32
	case SBV64:
		return 64
	}
	return 0
}

func bvSort(bits int) Sort {
	switch bits {
	case 8:
		return SBV8
	case 16:
		return SBV16
	case 32:
		return SBV32
	case 64:
		return SBV64
	}
	panic(fmt.Sprintf("bvSort %d", bits))
}

type Term struct {
	Op   string // SMT-LIB operator (possibly indexed, e.g. "(_ zero_extend 24)"), "var", "const"
	Args []*Term
	Sort Sort
	Name string // var
	Val  uint64 // const: bool 0/1, bit-vector value, or IEEE bits of a double
	h1   uint64
	h2   uint64
	size int
	vs   []int32 // sorted ids of the free variables
	fp   bool    // contains a floating-point operation (not just constants)
	tbl  int     // > 0: the term is a constant or an ite-tree over constants with tbl leaves ("table")
}

var (
	varIDmu sync.Mutex
	varIDs  = map[string]int32{}
)

func varID(name string) int32 {
	varIDmu.Lock()
	defer varIDmu.Unlock()
	id, ok := varIDs[name]
	if !ok {
		id = int32(len(varIDs))
		varIDs[name] = id
	}
	return id
}

func mergeVars(a, b []int32) []int32 {
	if len(a) == 0 {
		return b
	}
	if len(b) == 0 {
		return a
	}
	out := make([]int32, 0, len(a)+len(b))
	i, j := 0, 0
	for i < len(a) && j < len(b) {
		switch {
		case a[i] < b[j]:
			out = append(out, a[i])
			i++
		case a[i] > b[j]:
			out = append(out, b[j])
			j++
		default:
			out = append(out, a[i])
			i++
			j++
		}
	}
	out = append(out, a[i:]...)
	out = append(out, b[j:]...)
	if len(out) == len(a) {
		return a
	}
	if len(out) == len(b) {
		return b
	}
	return out
}

func intersects(a, b []int32) bool {
	i, j := 0, 0
	for i < len(a) && j < len(b) {
		switch {
		case a[i] < b[j]:
			i++
		case a[i] > b[j]:
			j++
		default:
			return true
		}
	}
	return false
}

func mix(h, x uint64) uint64 {
	h ^= x + 0x9e3779b97f4a7c15 + (h << 6) + (h >> 2)
	h *= 0xff51afd7ed558ccd
	h ^= h >> 33
	return h
}

func strHash(s string, seed uint64) uint64 {
	h := seed
	for i := 0; i < len(s); i++ {
		h ^= uint64(s[i])
		h *= 1099511628211
	}
	return h
}

func mk(op string, sort Sort, args ...*Term) *Term {
	t := &Term{Op: op, Args: args, Sort: sort, size: 1}
	t.h1 = mix(strHash(op, 14695981039346656037), uint64(sort))
	t.h2 = mix(strHash(op, 0x51ed270b27b4f3cf), uint64(sort)+77)
	for _, a := range args {
		t.h1 = mix(t.h1, a.h1)
		t.h2 = mix(t.h2, a.h2^0xabcdef)
		t.size += a.size
		t.vs = mergeVars(t.vs, a.vs)
	}
	if strings.HasPrefix(op, "fp.") || strings.Contains(op, "to_fp") || strings.Contains(op, "fp.to") {
		t.fp = true
	}
	for _, a := range args {
		if a.fp {
			t.fp = true
		}
	}
	if op == "ite" && args[1].tbl > 0 && args[2].tbl > 0 {
		t.tbl = args[1].tbl + args[2].tbl
	}
	return t
}

const tableCap = 20000

// Table lifting: an operation whose operands are all constants or ite-trees over
// constants is pushed to the leaves, where it is evaluated exactly by the host. Values
// drawn from small finite domains (vh.FloatFrom, the ParseFloat digit tables) thus never
// reach the solver's floating-point theory; only the selector conditions do.
func liftable(args ...*Term) bool {
	n := 1
	ite := false
	for _, a := range args {
		if a.tbl == 0 {
			return false
		}
		if a.Op == "ite" {
			ite = true
		}
		n *= a.tbl
		if n > tableCap {
			return false
		}
	}
	return ite
}

// assumption context for lifting: conditions known true / false on the way down
type liftCtx struct {
	c    *Term
	pos  bool
	next *liftCtx
}

// known reports whether cond is decided by the context.
func (x *liftCtx) known(cond *Term) (bool, bool) {
	for p := x; p != nil; p = p.next {
		if Same(p.c, cond) {
			return p.pos, true
		}
		// selector tests: (= v k1) true implies (= v k2) false for k1 != k2
		if p.pos && p.c.Op == "=" && cond.Op == "=" && len(p.c.Args) == 2 && len(cond.Args) == 2 {
			pv, pk := p.c.Args[0], p.c.Args[1]
			cv, ck := cond.Args[0], cond.Args[1]
			if pk.IsConst() && ck.IsConst() && Same(pv, cv) && pk.Val != ck.Val {
				return false, true
			}
		}
	}
	return false, false
}

func lift1(f func(*Term) *Term, a *Term) *Term {
	if a.Op == "ite" {
		return Ite(a.Args[0], lift1(f, a.Args[1]), lift1(f, a.Args[2]))
	}
	return f(a)
}

func lift2(f func(a, b *Term) *Term, a, b *Term) *Term { return lift2c(f, a, b, nil) }

func lift2c(f func(a, b *Term) *Term, a, b *Term, ctx *liftCtx) *Term {
	for _, t := range []**Term{&a, &b} {
		for (*t).Op == "ite" {
			v, ok := ctx.known((*t).Args[0])
			if !ok {
				break
			}
			if v {
				*t = (*t).Args[1]
			} else {
				*t = (*t).Args[2]
			}
		}
	}
	if a.Op == "ite" {
		c := a.Args[0]
		return Ite(c, lift2c(f, a.Args[1], b, &liftCtx{c, true, ctx}), lift2c(f, a.Args[2], b, &liftCtx{c, false, ctx}))
	}
	if b.Op == "ite" {
		c := b.Args[0]
		return Ite(c, lift2c(f, a, b.Args[1], &liftCtx{c, true, ctx}), lift2c(f, a, b.Args[2], &liftCtx{c, false, ctx}))
	}
	return f(a, b)
}

func Var(name string, sort Sort) *Term {
	t := &Term{Op: "var", Name: name, Sort: sort, size: 1}
	t.h1 = mix(strHash(name, 1), uint64(sort))
	t.h2 = mix(strHash(name, 2), uint64(sort)+3)
	t.vs = []int32{varID(name)}
	return t
}

func konst(sort Sort, v uint64) *Term {
	if b := sort.Bits(); b > 0 && b < 64 {
		v &= (1 << uint(b)) - 1
	}
	t := &Term{Op: "const", Sort: sort, Val: v, size: 1, tbl: 1}
	t.h1 = mix(mix(0x1234, uint64(sort)), v)
	t.h2 = mix(mix(0x9876, uint64(sort)), v^0x55)
	return t
}

var (
	TTrue  = konst(SBool, 1)
	TFalse = konst(SBool, 0)
	tRNE   = mk("RNE", SRM)
	tRTZ   = mk("RTZ", SRM)
	tRTN   = mk("RTN", SRM)
	tRTP   = mk("RTP", SRM)
	tRNA   = mk("RNA", SRM)
)

func BoolConst(b bool) *Term {
	if b {
		return TTrue
	}
	return TFalse
}
func BVConst(v uint64, bits int) *Term { return konst(bvSort(bits), v) }
func FPConst(f float64) *Term          { return konst(SFP, math.Float64bits(f)) }

func (t *Term) IsConst() bool { return t.Op == "const" }
func (t *Term) IsTrue() bool  { return t.Op == "const" && t.Sort == SBool && t.Val == 1 }
func (t *Term) IsFalse() bool { return t.Op == "const" && t.Sort == SBool && t.Val == 0 }
func (t *Term) Float() float64 {
	return math.Float64frombits(t.Val)
}

// Same reports structural identity.
func Same(a, b *Term) bool {
	return a == b || (a.h1 == b.h1 && a.h2 == b.h2 && a.Sort == b.Sort && a.size == b.size)
}

// ---- boolean constructors ----

func Not(a *Term) *Term {
	if a.IsConst() {
		return BoolConst(a.Val == 0)
	}
	if a.Op == "not" {
		return a.Args[0]
	}
	return mk("not", SBool, a)
}

func And(a, b *Term) *Term {
	if a.IsFalse() || b.IsFalse() {
		return TFalse
	}
	if a.IsTrue() {
		return b
	}
	if b.IsTrue() {
		return a
	}
	if Same(a, b) {
		return a
	}
	return mk("and", SBool, a, b)
}

func Or(a, b *Term) *Term {
	if a.IsTrue() || b.IsTrue() {
		return TTrue
	}
	if a.IsFalse() {
		return b
	}
	if b.IsFalse() {
		return a
	}
	if Same(a, b) {
		return a
	}
	return mk("or", SBool, a, b)
}

func Implies(a, b *Term) *Term { return Or(Not(a), b) }

func Ite(c, a, b *Term) *Term {
	if c.IsTrue() {
		return a
	}
	if c.IsFalse() {
		return b
	}
	if Same(a, b) {
		return a
	}
	if a.Sort == SBool {
		if a.IsTrue() && b.IsFalse() {
			return c
		}
		if a.IsFalse() && b.IsTrue() {
			return Not(c)
		}
	}
	return mk("ite", a.Sort, c, a, b)
}

// Eq is SMT equality (for FP: identity of the datum, NaN = NaN, +0 != -0).
func Eq(a, b *Term) *Term {
	if a.Sort != b.Sort {
		panic(fmt.Sprintf("Eq sort mismatch %v %v", a.Sort, b.Sort))
	}
	if Same(a, b) {
		return TTrue
	}
	if a.Sort != SBool && liftable(a, b) {
		return lift2(Eq, a, b)
	}
	if a.IsConst() && b.IsConst() {
		if a.Sort == SFP {
			fa, fb := a.Float(), b.Float()
			if fa != fa && fb != fb {
				return TTrue
			}
			return BoolConst(a.Val == b.Val)
		}
		return BoolConst(a.Val == b.Val)
	}
	if a.Sort == SBool {
		if a.IsConst() {
			a, b = b, a
		}
		if b.IsTrue() {
			return a
		}
		if b.IsFalse() {
			return Not(a)
		}
	}
	return mk("=", SBool, a, b)
}

// ---- bit-vector constructors ----

func sext(v uint64, bits int) int64 {
	sh := uint(64 - bits)
	return int64(v<<sh) >> sh
}

func BVBin(op string, a, b *Term) *Term {
	if a.Sort != b.Sort {
		panic(fmt.Sprintf("BVBin %s sort mismatch %v %v", op, a.Sort, b.Sort))
	}
	if liftable(a, b) {
		return lift2(func(x, y *Term) *Term { return BVBin(op, x, y) }, a, b)
	}
	n := a.Sort.Bits()
	if a.IsConst() && b.IsConst() {
		x, y := a.Val, b.Val
		sx, sy := sext(x, n), sext(y, n)
		var r uint64
		ok := true
		switch op {
		case "bvadd":
			r = x + y
		case "bvsub":
			r = x - y
		case "bvmul":
			r = x * y
		case "bvand":
			r = x & y
		case "bvor":
			r = x | y
		case "bvxor":
			r = x ^ y
		case "bvshl":
			if y >= uint64(n) {
				r = 0
			} else {
				r = x << y
			}
		case "bvlshr":
			if y >= uint64(n) {
				r = 0
			} else {
				r = x >> y
			}
		case "bvashr":
			if y >= uint64(n) {
				y = uint64(n - 1)
			}
			r = uint64(sx >> y)
		// division by zero follows SMT-LIB (the executor never relies on it: Go's
		// divide-by-zero panic is an explicit obligation before the operation)
		case "bvudiv":
			if y == 0 {
				r = ^uint64(0)
			} else {
				r = x / y
			}
		case "bvurem":
			if y == 0 {
				r = x
			} else {
				r = x % y
			}
		case "bvsdiv":
			if sy == 0 {
				if sx < 0 {
					r = 1
				} else {
					r = ^uint64(0)
				}
			} else if sy == -1 {
				r = uint64(-sx)
			} else {
				r = uint64(sx / sy)
			}
		case "bvsrem":
			if sy == 0 {
				r = x
			} else if sy == -1 {
				r = 0
			} else {
				r = uint64(sx % sy)
			}
		default:
			ok = false
		}
		if ok {
			return konst(a.Sort, r)
		}
	}
	// light identities
	switch op {
	case "bvadd", "bvor", "bvxor":
		if a.IsConst() && a.Val == 0 {
			return b
		}
		if b.IsConst() && b.Val == 0 {
			return a
		}
	case "bvsub", "bvshl", "bvlshr", "bvashr":
		if b.IsConst() && b.Val == 0 {
			return a
		}
	}
	return mk(op, a.Sort, a, b)
}

func BVCmp(op string, a, b *Term) *Term {
	if a.Sort != b.Sort {
		panic(fmt.Sprintf("BVCmp %s sort mismatch %v %v", op, a.Sort, b.Sort))
	}
	if liftable(a, b) {
		return lift2(func(x, y *Term) *Term { return BVCmp(op, x, y) }, a, b)
	}
	n := a.Sort.Bits()
	if a.IsConst() && b.IsConst() {
		x, y := a.Val, b.Val
		sx, sy := sext(x, n), sext(y, n)
		switch op {
		case "bvult":
			return BoolConst(x < y)
		case "bvule":
			return BoolConst(x <= y)
		case "bvugt":
			return BoolConst(x > y)
		case "bvuge":
			return BoolConst(x >= y)
		case "bvslt":
			return BoolConst(sx < sy)
		case "bvsle":
			return BoolConst(sx <= sy)
		case "bvsgt":
			return BoolConst(sx > sy)
		case "bvsge":
			return BoolConst(sx >= sy)
		}
	}
	if Same(a, b) {
		switch op {
		case "bvule", "bvuge", "bvsle", "bvsge":
			return TTrue
		default:
			return TFalse
		}
	}
	return mk(op, SBool, a, b)
}

func BVNeg(a *Term) *Term {
	if liftable(a) {
		return lift1(BVNeg, a)
	}
	if a.IsConst() {
		return konst(a.Sort, -a.Val)
	}
	return mk("bvneg", a.Sort, a)
}

func BVNot(a *Term) *Term {
	if a.IsConst() {
		return konst(a.Sort, ^a.Val)
	}
	return mk("bvnot", a.Sort, a)
}

// Resize converts a bit-vector to another width.
func Resize(a *Term, bits int, signed bool) *Term {
	n := a.Sort.Bits()
	if n == bits {
		return a
	}
	if liftable(a) {
		return lift1(func(x *Term) *Term { return Resize(x, bits, signed) }, a)
	}
	if a.IsConst() {
		if bits > n && signed {
			return konst(bvSort(bits), uint64(sext(a.Val, n)))
		}
		return konst(bvSort(bits), a.Val)
	}
	switch {
	case bits < n:
		return mk(fmt.Sprintf("(_ extract %d 0)", bits-1), bvSort(bits), a)
	case signed:
		return mk(fmt.Sprintf("(_ sign_extend %d)", bits-n), bvSort(bits), a)
	}
	return mk(fmt.Sprintf("(_ zero_extend %d)", bits-n), bvSort(bits), a)
}

// ---- floating point constructors ----

func FPBin(op string, a, b *Term) *Term {
	if liftable(a, b) {
		return lift2(func(x, y *Term) *Term { return FPBin(op, x, y) }, a, b)
	}
	if a.IsConst() && b.IsConst() {
		x, y := a.Float(), b.Float()
		switch op {
		case "fp.add":
			return FPConst(x + y)
		case "fp.sub":
			return FPConst(x - y)
		case "fp.mul":
			return FPConst(x * y)
		case "fp.div":
			return FPConst(x / y)
		}
	}
	return mk(op, SFP, tRNE, a, b)
}

func FPCmp(op string, a, b *Term) *Term {
	if Same(a, b) {
		switch op {
		case "fp.lt", "fp.gt":
			return TFalse
		default: // fp.eq, fp.leq, fp.geq: true unless NaN
			return Not(FPPred("fp.isNaN", a))
		}
	}
	if liftable(a, b) {
		return lift2(func(x, y *Term) *Term { return FPCmp(op, x, y) }, a, b)
	}
	if a.IsConst() && b.IsConst() {
		x, y := a.Float(), b.Float()
		switch op {
		case "fp.eq":
			return BoolConst(x == y)
		case "fp.lt":
			return BoolConst(x < y)
		case "fp.leq":
			return BoolConst(x <= y)
		case "fp.gt":
			return BoolConst(x > y)
		case "fp.geq":
			return BoolConst(x >= y)
		}
	}
	return mk(op, SBool, a, b)
}

func FPNeg(a *Term) *Term {
	if liftable(a) {
		return lift1(FPNeg, a)
	}
	if a.IsConst() {
		return FPConst(-a.Float())
	}
	return mk("fp.neg", SFP, a)
}

func FPPred(op string, a *Term) *Term {
	if liftable(a) {
		return lift1(func(x *Term) *Term { return FPPred(op, x) }, a)
	}
	if a.IsConst() {
		x := a.Float()
		switch op {
		case "fp.isNaN":
			return BoolConst(x != x)
		case "fp.isInfinite":
			return BoolConst(math.IsInf(x, 0))
		case "fp.isZero":
			return BoolConst(x == 0)
		case "fp.isNegative":
			return BoolConst(math.Signbit(x) && x == x)
		}
	}
	return mk(op, SBool, a)
}

func FPRound(rm *Term, a *Term) *Term {
	if liftable(a) {
		return lift1(func(x *Term) *Term { return FPRound(rm, x) }, a)
	}
	if a.IsConst() {
		x := a.Float()
		switch rm {
		case tRTN:
			return FPConst(math.Floor(x))
		case tRTP:
			return FPConst(math.Ceil(x))
		case tRNA:
			return FPConst(math.Round(x))
		case tRTZ:
			return FPConst(math.Trunc(x))
		}
	}
	return mk("fp.roundToIntegral", SFP, rm, a)
}

// FPFromBits reinterprets a 64-bit vector as a double.
func FPFromBits(a *Term) *Term {
	if liftable(a) {
		return lift1(FPFromBits, a)
	}
	if a.IsConst() {
		return konst(SFP, a.Val)
	}
	return mk("(_ to_fp 11 53)", SFP, a)
}

// FPFromInt converts a (signed or unsigned) bit-vector integer to the nearest double.
func FPFromInt(a *Term, signed bool) *Term {
	if liftable(a) {
		return lift1(func(x *Term) *Term { return FPFromInt(x, signed) }, a)
	}
	if a.IsConst() {
		if signed {
			return FPConst(float64(sext(a.Val, a.Sort.Bits())))
		}
		return FPConst(float64(a.Val))
	}
	if signed {
		return mk("(_ to_fp 11 53)", SFP, tRNE, a)
	}
	return mk("(_ to_fp_unsigned 11 53)", SFP, tRNE, a)
}

// FPToInt64 models Go's float64 -> int64 conversion on amd64 (CVTTSD2SQ):
// truncation when representable, 0x8000000000000000 otherwise (NaN, +-Inf, out of range).
func FPToInt64(a *Term) *Term {
	if liftable(a) {
		return lift1(FPToInt64, a)
	}
	if a.IsConst() {
		x := a.Float()
		if x != x || x >= 9223372036854775808.0 || x < -9223372036854775808.0 {
			return konst(SBV64, 1<<63)
		}
		return konst(SBV64, uint64(int64(x)))
	}
	lo := FPConst(-9223372036854775808.0)
	hi := FPConst(9223372036854775808.0)
	inr := And(FPCmp("fp.geq", a, lo), FPCmp("fp.lt", a, hi))
	conv := mk("(_ fp.to_sbv 64)", SBV64, tRTZ, a)
	return Ite(inr, conv, konst(SBV64, 1<<63))
}

// ---- printing ----

// Printer emits SMT-LIB2 text for terms, abbreviating large shared sub-terms with
// define-fun (one Printer per solver process; definitions are global there).
type Printer struct {
	defs    map[[2]uint64]string
	decls   map[string]bool
	n       int
	Pending []string // commands to send before the term text is used
}

func NewPrinter() *Printer {
	return &Printer{defs: map[[2]uint64]string{}, decls: map[string]bool{}}
}

const abbrevSize = 24

func (p *Printer) Print(t *Term) string {
	var sb strings.Builder
	p.print(&sb, t)
	return sb.String()
}

func (p *Printer) print(sb *strings.Builder, t *Term) {
	switch t.Op {
	case "var":
		// the same harness symbol may be declared with different sorts on different
		// paths; solver-side names carry the sort
		n := solverName(t)
		if !p.decls[n] {
			p.decls[n] = true
			p.Pending = append(p.Pending, fmt.Sprintf("(declare-const %s %s)", n, t.Sort))
		}
		sb.WriteString(n)
		return
	case "const":
		switch t.Sort {
		case SBool:
			if t.Val == 1 {
				sb.WriteString("true")
			} else {
				sb.WriteString("false")
			}
		case SFP:
			fmt.Fprintf(sb, "((_ to_fp 11 53) #x%016x)", t.Val)
		default:
			n := t.Sort.Bits()
			fmt.Fprintf(sb, "#x%0*x", n/4, t.Val)
		}
		return
	}
	if len(t.Args) == 0 {
		sb.WriteString(t.Op)
		return
	}
	if t.size >= abbrevSize {
		key := [2]uint64{t.h1, t.h2}
		if name, ok := p.defs[key]; ok {
			sb.WriteString(name)
			return
		}
		var body strings.Builder
		p.printApp(&body, t)
		p.n++
		name := fmt.Sprintf("t!%d", p.n)
		p.defs[key] = name
		p.Pending = append(p.Pending, fmt.Sprintf("(define-fun %s () %s %s)", name, t.Sort, body.String()))
		sb.WriteString(name)
		return
	}
	p.printApp(sb, t)
}

func (p *Printer) printApp(sb *strings.Builder, t *Term) {
	sb.WriteByte('(')
	sb.WriteString(t.Op)
	for _, a := range t.Args {
		sb.WriteByte(' ')
		p.print(sb, a)
	}
	sb.WriteByte(')')
}

func solverName(t *Term) string {
	tag := "b"
	if n := t.Sort.Bits(); n > 0 {
		tag = fmt.Sprint(n)
	}
	return t.Name + "!" + tag
}

// Plain renders a term without abbreviations (for evidence samples / debugging).
func (t *Term) Plain() string {
	p := &Printer{defs: map[[2]uint64]string{}, decls: map[string]bool{}}
	var sb strings.Builder
	p.plain(&sb, t, 0)
	return sb.String()
}

func (p *Printer) plain(sb *strings.Builder, t *Term, depth int) {
	if sb.Len() > 4000 {
		sb.WriteString("…")
		return
	}
	switch t.Op {
	case "var":
		sb.WriteString(t.Name)
		return
	case "const":
		switch t.Sort {
		case SBool:
			fmt.Fprintf(sb, "%v", t.Val == 1)
		case SFP:
			fmt.Fprintf(sb, "%g", t.Float())
		default:
			fmt.Fprintf(sb, "%d", t.Val)
		}
		return
	}
	if len(t.Args) == 0 {
		sb.WriteString(t.Op)
		return
	}
	sb.WriteByte('(')
	sb.WriteString(t.Op)
	for _, a := range t.Args {
		sb.WriteByte(' ')
		p.plain(sb, a, depth+1)
	}
	sb.WriteByte(')')
}

// Vars collects the free variables of t into set.
func (t *Term) Vars(set map[string]*Term, seen map[*Term]bool) {
	if seen[t] {
		return
	}
	seen[t] = true
	if t.Op == "var" {
		set[t.Name] = t
		return
	}
	for _, a := range t.Args {
		a.Vars(set, seen)
	}
}

var _ = bits.Len
