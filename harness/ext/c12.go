package ext

import (
	lang "github.com/alligator/jqawk/src"
	"github.com/alligator/jqawk/zzverif/vh"
)

// VHC12Kernel: byte offset -> (line text, 1-based line, 0-based byte column) against a
// byte-exact reference, for every source of up to N bytes (all byte values: multi-byte,
// invalid UTF-8, CR LF) and every offset that is not on a newline.
func VHC12Kernel() {
	max := 4
	if vh.Thorough() {
		max = 6
	}
	n := 1 + vh.Choose("n", max)
	src := vh.Bytes("s", n)
	pos := vh.Choose("pos", n)
	vh.Assume(src[pos] != '\n')
	lx := lang.NewLexer(src)
	text, line, col := lx.GetLineAndCol(pos)

	refLine, lineStart := 1, 0
	for i := 0; i < pos; i++ {
		if src[i] == '\n' {
			refLine++
			lineStart = i + 1
		}
	}
	lineEnd := n
	for i := n - 1; i > pos; i-- {
		if src[i] == '\n' {
			lineEnd = i
		}
	}
	vh.Reach("position computed")
	vh.Assert(line == refLine, "C12 kernel: reported line number is 1 + newlines before the offset")
	vh.Assert(col == pos-lineStart, "C12 kernel: reported column is the byte offset within the line")
	vh.Assert(text == src[lineStart:lineEnd], "C12 kernel: quoted text is exactly that line")
}

type c12Fault struct {
	text       string // the fault line
	kind       int    // expected error class
	from, upto int    // byte range of the offending construct within the fault line
	last       bool   // must be the last line (unterminated constructs)
}

var c12Faults = []c12Fault{
	{"BEGIN { x = 1 @ 2 }", ErrSyntax, 14, 15, false},
	{"BEGIN { x = ) }", ErrSyntax, 12, 13, false},
	{"BEGIN { x = 1 / 0 }", ErrRuntime, 12, 17, false},
	{"BEGIN { print $nope }", ErrRuntime, 14, 19, false},
	{"BEGIN { y = 1; y() }", ErrRuntime, 15, 18, false},
	{"BEGIN { print 1 ~ 2 }", ErrRuntime, 14, 19, false},
	{"BEGIN { for (q in 5) { } }", ErrRuntime, 8, 20, false},
	{"BEGIN { print \"abc }", ErrSyntax, 14, 20, true},
	{"BEGIN { break }", ErrSyntax, 8, 13, false},
	{"BEGIN { x = 1 & 2 }", ErrSyntax, 14, 15, false},
	{"BEGIN { x = 1 | 2 }", ErrSyntax, 14, 15, false},
	{"BEGIN { x = 1 &", ErrSyntax, 14, 15, false},
	{"BEGIN { x = 1 |", ErrSyntax, 14, 15, true},
	{"BEGIN { x = y ? 1 }", ErrSyntax, 14, 15, false},
	{"BEGIN { x = `a` }", ErrSyntax, 12, 13, false},
}

func posOf(err error) (int, int, string) {
	switch e := err.(type) {
	case lang.SyntaxError:
		return e.Line, e.Col, e.SrcLine
	case lang.RuntimeError:
		return e.Line, e.Col, e.SrcLine
	}
	return -1, -1, ""
}

// VHC12Errors: a fault on one line of a multi-line program is reported on that line,
// with that line's text and a column inside the offending construct, whatever bytes
// (comments, strings, CR LF, non-ASCII) precede and follow it.
func VHC12Errors() {
	f := c12Faults[vh.Choose("fault", len(c12Faults))]
	before := vh.Choose("before", 3) // number of preceding lines
	crlf := vh.Choose("crlf", 2) == 1
	eol := "\n"
	if crlf {
		eol = "\r\n"
	}
	prog := ""
	extraLines := 0
	for i := 0; i < before; i++ {
		fill := vh.Bytes("fill"+string(rune('a'+i)), 3)
		for j := 0; j < len(fill); j++ {
			vh.Assume(vh.Not(vh.OneOf(fill[j], "\n")))
		}
		switch vh.Choose("kind"+string(rune('a'+i)), 4) {
		case 2:
			// a string literal that spans two lines (a raw newline inside the quotes)
			prog += "BEGIN { s" + string(rune('a'+i)) + " = \"x" + eol + "y\" }" + eol
			extraLines++
		case 3:
			// a regex literal that spans two lines
			prog += "BEGIN { r" + string(rune('a'+i)) + " = /x" + eol + "y/ }" + eol
			extraLines++
		case 0:
			prog += "# " + fill + eol // comment with arbitrary bytes
		case 1:
			for j := 0; j < len(fill); j++ {
				vh.Assume(vh.Not(vh.OneOf(fill[j], "\"\\"))) // no closing quote, no escape (escapes are C13's)
			}
			prog += "BEGIN { s" + string(rune('a'+i)) + " = \"" + fill + "\" }" + eol // string literal with arbitrary bytes
		}
	}
	prog += f.text
	after := 0
	if !f.last {
		after = vh.Choose("after", 2)
		for i := 0; i < after; i++ {
			prog += eol + "# trailing"
		}
	}
	var out vh.Out
	_, err := lang.EvalProgram(prog, nil, nil, &out, false)
	k := legal(err, "EvalProgram")
	vh.Assert(k == f.kind, "C12: fault `"+f.text+"` must be reported with its error kind")
	line, col, text := posOf(err)
	vh.Reach("fault reported")
	vh.Assert(line == before+extraLines+1, "C12: the reported line is the fault's line")
	want := f.text
	if crlf && (after > 0) {
		want += "\r"
	}
	vh.Assert(text == want, "C12: the quoted source line is exactly line N of the program")
	vh.Assert(col >= f.from && col < f.upto, "C12: the reported column falls inside the offending construct")
}

// VHC12Statements: every failing statement of C11's catalogue, on its own line of a
// multi-line program (directly in a rule, or inside a function called from another
// line): the error names that line, quotes it, and points inside the statement.
func VHC12Statements() {
	st := c11Statements[vh.Choose("stmt", len(c11Statements))]
	before := vh.Choose("before", 3)
	prog := ""
	for i := 0; i < before; i++ {
		prog += []string{"BEGIN { t0 = true; f0 = false; n0 = null; e0 = [null, true] } # comment é", "BEGIN { s = \"two\nlines\" }"}[i%2] + "\n"
	}
	line := before + 1
	if before == 2 {
		line++ // the string literal on the second line holds a raw newline
	}
	indent := []string{"", "\t", "    "}[vh.Choose("indent", 3)]
	var faultLine string
	if vh.Choose("ctx", 2) == 0 {
		faultLine = indent + "BEGIN { " + st + " }"
		prog += faultLine + "\nEND { print 'end' }"
	} else {
		prog += "function g() {\n"
		faultLine = indent + st
		prog += faultLine + "\n}\nBEGIN {\n  g()\n}"
		line++
	}
	var out vh.Out
	_, err := lang.EvalProgram(prog, nil, nil, &out, false)
	k := legal(err, "EvalProgram")
	vh.Reach("failing statement reported")
	vh.Assert(k == ErrRuntime, "C12: `"+st+"` fails at run time")
	gl, gc, gt := posOf(err)
	from := len(faultLine) - len(st)
	if faultLine[len(faultLine)-1] == '}' {
		from -= 2
	}
	vh.Assert(gl == line, "C12: the reported line is the line of the failing statement: "+st)
	vh.Assert(gt == faultLine, "C12: the quoted source line is that line: "+st)
	vh.Assert(gc >= from && gc < from+len(st), "C12: the reported column falls inside the failing statement: "+st)
}

var c12Calls = []struct {
	prog string
	line int
}{
	{"function inner() { return 1 }\nfunction mid() {\n  return inner()\n}\nBEGIN {\n  x = nosuchfn(mid())\n}", 6},
	{"function inner() { return 1 }\nfunction mid() {\n  y = inner()\n  return y\n}\nBEGIN {\n  v = 5\n  x = v(mid(), mid())\n}", 8},
	{"function a() {\n  return b()\n}\nfunction b() {\n  return 1\n}\nBEGIN { x = [1]\n  x.nosuch(a())\n}", 8},
	{"function deep(n) {\n  if (n > 0) return deep(n - 1)\n  return 0\n}\nBEGIN {\n  num(deep(3), 2)\n}", 6},
	{"function ok() { return 1 }\nBEGIN {\n  x = ok()\n\n  y = ok() + nosuch2(ok())\n}", 5},
}

// VHC12Calls: a call that fails is reported on the line of that call, whatever calls
// (on other lines) were made while its arguments were evaluated.
func VHC12Calls() {
	c := c12Calls[vh.Choose("case", len(c12Calls))]
	var out vh.Out
	_, err := lang.EvalProgram(c.prog, nil, nil, &out, false)
	k := legal(err, "EvalProgram")
	line, _, text := posOf(err)
	vh.Reach("failing call reported")
	vh.Assert(k == ErrRuntime, "C12: the call fails at run time: "+lbl(c.prog))
	vh.Assert(line == c.line, "C12: a failing call is reported on its own line: "+lbl(c.prog))
	want := ""
	n := 1
	start := 0
	for i := 0; i <= len(c.prog); i++ {
		if i == len(c.prog) || c.prog[i] == '\n' {
			if n == c.line {
				want = c.prog[start:i]
			}
			n++
			start = i + 1
		}
	}
	vh.Assert(text == want, "C12: the quoted source line is the line of the failing call: "+lbl(c.prog))
}

var c12First = []string{"$.t == 1 { print 'r' }", "$.n() { print 'r' }", "[1, 2] > $.n { print 'r' }", "$.n.k.j() { print 'r' }"}

// VHC12FirstByte: a fault in a rule pattern that begins at the very first byte of the
// program (or of a later line) is reported with that line and a column inside the pattern.
func VHC12FirstByte() {
	pat := c12First[vh.Choose("pat", len(c12First))]
	before := vh.Choose("before", 3)
	prog := ""
	for i := 0; i < before; i++ {
		prog += "# a comment line\n"
	}
	prog += pat + "\nEND { print 'end' }"
	var out vh.Out
	doc := map[string]any{"t": []any{1.0}, "n": 5.0}
	_, err := lang.EvalProgram(prog, []lang.InputFile{{Name: "f", Reader: &vh.DocStream{Items: []any{doc}}}}, nil, &out, false)
	k := legal(err, "EvalProgram")
	line, col, text := posOf(err)
	vh.Reach("leading pattern fault reported")
	vh.Assert(k == ErrRuntime, "C12: the pattern fails at run time: "+pat)
	vh.Assert(line == before+1, "C12: a fault at the first byte of a line is reported on that line: "+pat)
	vh.Assert(text == pat, "C12: the quoted source line is that line: "+pat)
	vh.Assert(col >= 0 && col < len(pat)-14, "C12: the column lies inside the pattern: "+pat)
}
