package ext

import (
	"strconv"
	"strings"

	lang "github.com/alligator/jqawk/src"
	"github.com/alligator/jqawk/zzverif/vh"
)

// Token-level corpus: programs written as token lists ("\n" = statement separator).
// The canonical rendering joins tokens with one space.
var c13Corpus = [][]string{
	{"BEGIN", "{", "x", "=", "1", "+", "2", "*", "3", "\n", "print", "x", ",", "\"a\"", "\n", "}"},
	{"function", "f", "(", "a", ",", "b", ")", "{", "return", "a", "+", "b", "}", "\n", "BEGIN", "{", "print", "f", "(", "1", ",", "2", ")", "}"},
	{"{", "if", "(", "$", ".", "a", ">", "1", ")", "{", "print", "\"big\"", "}", "else", "print", "\"small\"", "}"},
	{"BEGIN", "{", "for", "(", "i", "=", "0", ";", "i", "<", "3", ";", "i", "++", ")", "{", "if", "(", "i", "==", "1", ")", "continue", "\n", "print", "i", "}", "}"},
	{"BEGIN", "{", "a", "=", "[", "1", ",", "2", ",", "3", "]", "\n", "for", "(", "v", ",", "i", "in", "a", ")", "print", "v", ",", "i", "}"},
	{"BEGIN", "{", "o", "=", "{", "k", ":", "1", ",", "\"j\"", ":", "[", "2", "]", "}", "\n", "print", "o", ".", "k", "+", "o", ".", "j", "[", "0", "]", "}"},
	{"BEGIN", "{", "x", "=", "match", "(", "2", ")", "{", "1", "=>", "\"one\"", ",", "2", ",", "3", "=>", "\"many\"", ",", "z", "=>", "\"other\"", "}", "\n", "print", "x", "}"},
	{"BEGIN", "{", "i", "=", "0", "\n", "while", "(", "i", "<", "2", ")", "{", "i", "++", "\n", "if", "(", "i", "==", "2", ")", "break", "}", "\n", "print", "i", "}"},
	{"$", ".", "a", "~", "/2/", "{", "print", "$", ".", "a", "is", "number", ",", "!", "true", ",", "-", "1", "}", "\n", "END", "{", "print", "$index", "is", "unknown", "}"},
	{"BEGIN", "{", "x", "=", "-", "1", "\n", "print", "x", "*", "-", "2", ",", "-", "(", "1", ")", ",", "-", "-", "1", ",", "0", "-", "3", "}"},
	{"BEGIN", "{", "printf", "(", "\"%s-%s|\"", ",", "\"a\"", ",", "'b'", ")", "\n", "n", "=", "null", "\n", "print", "n", "==", "null", ",", "1", "<=", "2", "&&", "2", "!=", "3", "}"},
}

// what each corpus program prints on c13Doc (read off the programs, not computed by the
// implementation: a layout-dependent defect that also hits the canonical spelling must
// not cancel out)
// programs for the ';' clause: a statement ended by ';' may be followed by another one on the same line
var c13Semis = [][2]string{
	{"function f(x) { if (x) return; print 'no' }\nBEGIN { f(1); f(0); print 'end' }", "no\nend\n"},
	{"function f(x) { if (x) return 5; print 'no' }\nBEGIN { print f(1); f(0); print 'end' }", "5\nno\nend\n"},
	{"function f() { return; }\nBEGIN { x = f(); print x is null; print 'a'; print 'b'; }", "true\na\nb\n"},
	{"BEGIN { for (i = 0; i < 3; i++) { if (i == 1) continue; if (i == 2) break; print i; } print 'end' }", "0\nend\n"},
	{"{ if ($.a > 1) next; print 'small' }\nEND { print 'end'; exit; print 'never' }", "small\nend\n"},
	{"BEGIN { x = 1; ; y = 2; print x + y }", ""},
}

var c13Gold = []string{"7 a\n", "3\n", "big\nsmall\n", "0\n2\n", "1 0\n2 1\n3 2\n", "3\n", "many\n", "2\n", "true false -1\nfalse\n", "2 -1 1 -3\n", "a-b|true true\n"}

var c13Doc = []any{map[string]any{"a": 2.0}, map[string]any{"a": 0.0}}

func c13Run(src string) (string, int) {
	var out vh.Out
	ds := &vh.DocStream{Items: []any{c13Doc}}
	_, err := lang.EvalProgram(src, []lang.InputFile{{Name: "f", Reader: ds}}, nil, &out, false)
	return out.String(), legal(err, "EvalProgram")
}

func c13Canonical(toks []string) string {
	return strings.Join(toks, " ")
}

// newline may be inserted in the gap after token i (before token i+1)?
func c13NewlineAllowed(toks []string, i int) bool {
	t, next := toks[i], toks[i+1]
	if t == "print" || t == "return" || next == ";" || t == "\n" || next == "\n" {
		return false
	}
	if t == "," {
		// a comma of a print list: scan back to the start of the statement
		depth := 0
		for j := i - 1; j >= 0; j-- {
			switch toks[j] {
			case ")", "]", "}":
				depth++
			case "(", "[", "{":
				if depth == 0 {
					return true // the comma belongs to a call / literal / for header
				}
				depth--
			case "print":
				if depth == 0 {
					return false
				}
			case "\n", ";":
				if depth == 0 {
					return true
				}
			}
		}
	}
	return true
}

// VHC13Whitespace: every gap of a program filled with symbolic horizontal whitespace
// (space, tab, CR) at once: all layouts of that shape are one path.
func VHC13Whitespace() {
	pi := vh.Choose("prog", len(c13Corpus))
	toks := c13Corpus[pi]
	want, wk := c13Gold[pi], OK
	src := ""
	for i, t := range toks {
		if i > 0 {
			g := vh.Bytes("g"+itoa(i), 2)
			vh.Assume(vh.And(vh.OneOf(g[0], " \t\r"), vh.OneOf(g[1], " \t\r")))
			src += " " + g
		}
		src += t
	}
	got, gk := c13Run(src)
	vh.Reach("layout evaluated")
	vh.Assert(gk == wk, "C13: horizontal whitespace between tokens must not change the outcome")
	vh.Assert(got == want, "C13: horizontal whitespace between tokens must not change the output")
}

// VHC13Newlines: line breaks and comments in up to two permitted gaps at a time
// (each gap symbolically either a space or a newline / comment).
func VHC13Newlines() {
	pi := vh.Choose("prog", len(c13Corpus))
	toks := c13Corpus[pi]
	want, wk := c13Gold[pi], OK
	var allowed []int
	for i := 0; i+1 < len(toks); i++ {
		if c13NewlineAllowed(toks, i) {
			allowed = append(allowed, i)
		}
	}
	p1 := allowed[vh.Choose("gap1", len(allowed))]
	p2 := -1
	if vh.Thorough() {
		p2 = allowed[vh.Choose("gap2", len(allowed))]
	}
	comment := vh.Choose("comment", 2) == 1
	src := ""
	for i, t := range toks {
		src += t
		if i+1 == len(toks) {
			break
		}
		switch {
		case i == p1 || i == p2:
			b := vh.Byte("nl" + itoa(i))
			vh.Assume(vh.OneOf(b, " \n"))
			if comment && i == p1 {
				c := vh.Bytes("cm", vh.Choose("cmlen", 3)) // comments of 0-2 bytes: `#` directly before the line end included
				for ci := 0; ci < len(c); ci++ {
					vh.Assume(vh.Not(vh.OneOf(c[ci], "\n")))
				}
				src += " #" + c + "\n"
			}
			src += " " + string([]byte{b}) + " "
		default:
			src += " "
		}
	}
	got, gk := c13Run(src)
	vh.Reach("line breaks evaluated")
	vh.Assert(gk == wk, "C13: a newline/comment in a permitted gap must not change the outcome")
	vh.Assert(got == want, "C13: a newline/comment in a permitted gap must not change the output")
}

// VHC13Semicolons: a newline separating two statements may be replaced by ';' unless
// the first statement ends in '}'.
func VHC13Semicolons() {
	toks := c13Corpus[vh.Choose("prog", len(c13Corpus))]
	want, wk := c13Run(c13Canonical(toks))
	out := make([]string, len(toks))
	copy(out, toks)
	n := 0
	for i, t := range toks {
		if t == "\n" && i > 0 && toks[i-1] != "}" && i+1 < len(toks) && toks[i+1] != "}" {
			if vh.Choose("semi"+itoa(i), 2) == 1 {
				out[i] = ";"
				n++
			}
		}
	}
	got, gk := c13Run(c13Canonical(out))
	vh.Reach("separators evaluated")
	vh.Assert(gk == wk && got == want, "C13: ';' in place of a statement-separating newline must not change behaviour")
}

func itoa(i int) string {
	if i < 10 {
		return string(rune('0' + i))
	}
	return itoa(i/10) + string(rune('0'+i%10))
}

// VHC13Quotes: '…' and "…" are interchangeable and denote exactly their characters,
// with \n \t \\ the only escapes (anything else is an error when evaluated).
func VHC13Quotes() {
	n := vh.Choose("n", 4)
	body := vh.Bytes("c", n)
	for i := 0; i < n; i++ {
		vh.Assume(vh.Not(vh.OneOf(body[i], "'\""))) // neither quote character
	}
	// reference denotation
	denot := ""
	bad := false
	for i := 0; i < n && !bad; i++ {
		if body[i] != '\\' {
			denot += string([]byte{body[i]})
			continue
		}
		if i == n-1 {
			bad = true
			break
		}
		i++
		switch body[i] {
		case 'n':
			denot += "\n"
		case 't':
			denot += "\t"
		case '\\':
			denot += "\\"
		default:
			bad = true
		}
	}
	o1, k1 := c13Run("BEGIN { printf('%s', '" + body + "') }")
	o2, k2 := c13Run("BEGIN { printf('%s', \"" + body + "\") }")
	if !bad {
		// the OTHER quote character is an ordinary character of the literal, wherever it stands
		o3, k3 := c13Run("BEGIN { printf('%s', '\"" + body + "\"') }")
		o4, k4 := c13Run("BEGIN { printf('%s', \"'" + body + "'x''\") }")
		vh.Assert(k3 == OK && o3 == "\""+denot+"\"", "C13: double quotes inside a single-quoted literal are characters of it, also first and last")
		vh.Assert(k4 == OK && o4 == "'"+denot+"'x''", "C13: single quotes inside a double-quoted literal are characters of it, also first and last")
	}
	vh.Reach("literal evaluated")
	if bad {
		vh.Assert(k1 == ErrRuntime && k2 == ErrRuntime, "C13: an unknown or dangling escape is a runtime error in both quote styles")
		vh.Assert(o1 == "" && o2 == "", "C13: nothing is printed for a bad escape")
	} else {
		vh.Assert(k1 == OK && k2 == OK, "C13: a literal without bad escapes evaluates in both quote styles")
		vh.Assert(o1 == denot, "C13: a single-quoted literal denotes exactly its characters")
		vh.Assert(o2 == denot, "C13: a double-quoted literal denotes exactly its characters")
	}
}

var c13AdjOps = []string{"-", "+", "*", "/", "<", "==", "%"}

// VHC13Numbers: numeric literals are digit sequences with an optional fraction, read in
// base ten (leading zeros included), and never absorb an adjacent operator: `A-B`,
// `A -B`, `A- B` all mean `A - B`. The oracle is the reference value of the spelling
// (strconv.ParseFloat of the same symbolic digits) carried in the document.
func VHC13Numbers() {
	op := c13AdjOps[vh.Choose("op", len(c13AdjOps))]
	// digits are drawn from tables: their arithmetic never reaches the solver
	la, lb := 1+vh.Choose("la", 2), 1
	ab, bb := make([]byte, la), make([]byte, lb)
	for i := range ab {
		ab[i] = vh.ByteFrom("a"+itoa(i), "0123456789")
	}
	for i := range bb {
		bb[i] = vh.ByteFrom("b"+itoa(i), "123456789") // non-zero: / and % stay defined
	}
	a, b := string(ab), string(bb)
	switch vh.Choose("lead", 3) { // leading zeros are part of the spelling, the value is decimal
	case 1:
		a = "0" + a
	case 2:
		a = "00" + a
	}
	if vh.Choose("frac", 2) == 1 {
		a += ".5"
	}
	va, _ := strconv.ParseFloat(a, 64)
	vb, _ := strconv.ParseFloat(b, 64)
	var want sres
	switch op {
	case "<", "==":
		want = specCompare(op, sv{kind: kNum, num: va}, sv{kind: kNum, num: vb})
	default:
		want = specArith(op, sv{kind: kNum, num: va}, sv{kind: kNum, num: vb})
	}
	doc := map[string]any{"ea": va}
	if want.kind == resBool {
		doc["er"] = want.b
	} else {
		doc["er"] = want.num
	}
	var expr string
	switch vh.Choose("spacing", 4) {
	case 0:
		expr = a + op + b
	case 1:
		expr = a + " " + op + b
	case 2:
		expr = a + op + " " + b
	case 3:
		expr = a + " " + op + " " + b
	}
	var out vh.Out
	ds := &vh.DocStream{Items: []any{doc}}
	_, err := lang.EvalProgram("{ x = "+expr+"; print "+a+" == $.ea, x == $.er }", []lang.InputFile{{Name: "f", Reader: ds}}, nil, &out, false)
	k := legal(err, "EvalProgram")
	vh.Reach("adjacent literal evaluated")
	vh.Assert(k == OK, "C13: an operator written directly against a number is still an operator")
	vh.Assert(out.String() == "true true\n", "C13: a numeric literal denotes its decimal value and `A"+op+"B` means `A "+op+" B`")
}

var c13Keywords = []string{"BEGIN", "END", "BEGINFILE", "ENDFILE", "print", "function", "return", "if", "else", "for", "while", "in", "match", "true", "false", "break", "continue", "next", "exit", "null", "is"}

// VHC13Keywords: keywords are recognised only as whole words: keyword + identifier
// character (before or after) is an ordinary identifier.
func VHC13Keywords() {
	kw := c13Keywords[vh.Choose("kw", len(c13Keywords))]
	c := vh.Byte("c")
	after := vh.Choose("after", 2) == 1
	var id string
	if after {
		vh.Assume(vh.Or(vh.Or(vh.InRange(c, 'a', 'z'), vh.InRange(c, 'A', 'Z')), vh.Or(vh.InRange(c, '0', '9'), vh.OneOf(c, "_"))))
		id = kw + string([]byte{c})
	} else {
		vh.Assume(vh.Or(vh.Or(vh.InRange(c, 'a', 'z'), vh.InRange(c, 'A', 'Z')), vh.OneOf(c, "_")))
		id = string([]byte{c}) + kw
	}
	// the result must not itself be a keyword (BEGIN+FILE etc. cannot arise from one character,
	// but e.g. "i"+"s"... "in"+... are fine); exclude exact keyword collisions
	for _, k := range c13Keywords {
		vh.Assume(vh.Not(vh.EqStr(id, k)))
	}
	out, k := c13Run("BEGIN { " + id + " = 5; print " + id + " }")
	vh.Reach("identifier evaluated")
	vh.Assert(k == OK && out == "5\n", "C13: keyword with an extra identifier character is an ordinary identifier")
}

// VHC13SameLine: `;` ends a statement like a newline does: break / continue / return /
// next / exit followed by `;` and another statement on the same line.
func VHC13SameLine() {
	c := c13Semis[vh.Choose("case", len(c13Semis))]
	if c[1] == "" {
		return // `;;`: whether an empty statement is allowed is left open
	}
	got, k := c13Run(c[0])
	vh.Reach("same-line statements evaluated")
	vh.Assert(k == OK && got == c[1], "C13: a statement ended by ; may be followed by another on the same line: "+lbl(c[0]))
}

func c13Punct(t string) bool {
	return len(t) == 1 && strings.IndexByte("()[]{},;", t[0]) >= 0
}

// c13Tight: may the blank between two adjacent tokens be dropped?
func c13Tight(t, next string) bool {
	if t == "\n" || next == "\n" {
		return false
	}
	return c13Punct(t) || c13Punct(next) || next[0] == '$'
}

// VHC13Adjacent: blanks between two tokens are optional wherever the tokens cannot run
// into each other: next to brackets, commas, semicolons and names that begin with `$`
// (`print$.a`, `in$`, `(x)`), the program means the same without the blank.
func VHC13Adjacent() {
	pi := vh.Choose("prog", len(c13Corpus))
	toks := c13Corpus[pi]
	var gaps []int
	for i := 0; i+1 < len(toks); i++ {
		if c13Tight(toks[i], toks[i+1]) {
			gaps = append(gaps, i)
		}
	}
	g1 := gaps[vh.Choose("gap", len(gaps))]
	all := vh.Choose("all", 2) == 1 // every such blank removed at once
	src := ""
	for i, t := range toks {
		src += t
		if i+1 < len(toks) {
			tight := i == g1
			if all {
				tight = c13Tight(t, toks[i+1])
			}
			if !tight {
				src += " "
			}
		}
	}
	got, k := c13Run(src)
	vh.Reach("tight layout evaluated")
	vh.Assert(k == OK && got == c13Gold[pi], "C13: a blank next to a bracket, comma, semicolon or $-name is optional: "+lbl(src))
}
