package ext

import (
	"encoding/json"
	"strings"

	"github.com/alligator/jqawk/cli"

	lang "github.com/alligator/jqawk/src"
	"github.com/alligator/jqawk/zzverif/vh"
)

// jsonEqual: structural equality of two JSON-shaped Go values as encoding/json would
// serialise them: a nil slice / nil map is JSON null, not an empty container.
func jsonEqual(got, want any) bool {
	switch w := want.(type) {
	case nil:
		return got == nil
	case bool:
		g, ok := got.(bool)
		return ok && vh.Iff(g, w)
	case float64:
		g, ok := got.(float64)
		return ok && vh.SameFloat(g, w)
	case string:
		g, ok := got.(string)
		return ok && g == w
	case []any:
		g, ok := got.([]any)
		if !ok || g == nil || len(g) != len(w) {
			return false
		}
		r := true
		for i := range w {
			r = vh.And(r, jsonEqual(g[i], w[i]))
		}
		return r
	case map[string]any:
		g, ok := got.(map[string]any)
		if !ok || g == nil || len(g) != len(w) {
			return false
		}
		r := true
		for k, wv := range w {
			gv, present := g[k]
			if !present {
				return false
			}
			r = vh.And(r, jsonEqual(gv, wv))
		}
		return r
	}
	return false
}

func c04Leaf(name string, sym bool) any {
	switch vh.Choose(name+"k", 4) {
	case 0:
		if sym {
			f := vh.Float(name + "f")
			vh.Assume(vh.IsFinite(f))
			return f
		}
		if !vh.Thorough() {
			return []float64{-1.5, 0}[vh.Choose(name+"n", 2)]
		}
		return []float64{0, -1.5, 1e300}[vh.Choose(name+"n", 3)]
	case 1:
		if sym {
			return vh.Bytes(name+"s", 2*vh.Choose(name+"sl", 2)) // empty or two bytes
		}
		// strings whose JSON text needs care: quotes, backslashes, control characters, non-ASCII,
		// HTML-sensitive characters, and text that merely LOOKS like an escape sequence
		return []string{"a\"b\\c é\n", "<\\u003c&\\u0026>\\n", "\u2028\u0001\\", "100% %d %s %%", ""}[vh.Choose(name+"t", 5)]
	case 2:
		if sym {
			return vh.Bool(name + "b")
		}
		return vh.Choose(name+"bv", 2) == 1
	}
	return nil
}

func c04Tree(name string, depth int, sym bool) any {
	if depth == 0 {
		return c04Leaf(name, sym)
	}
	switch vh.Choose(name+"c", 6) {
	case 0:
		return c04Leaf(name, sym)
	case 1:
		return []any{}
	case 2:
		return []any{c04Tree(name+"0", depth-1, sym)}
	case 3:
		if !vh.Thorough() && !sym {
			// quick tier, concrete leaves: the second element is a leaf (the product of two full
			// subtrees is the thorough tier's)
			return []any{c04Tree(name+"0", depth-1, sym), c04Leaf(name+"1", sym)}
		}
		return []any{c04Tree(name+"0", depth-1, sym), c04Tree(name+"1", depth-1, sym)}
	case 4:
		return map[string]any{}
	}
	return map[string]any{"k": c04Tree(name+"0", depth-1, sym), "j": c04Leaf(name+"j", sym)}
}

// VHC04Convert: JSON -> Value -> Go value is the identity on JSON-shaped trees with
// symbolic leaves (the conversions jqawk owns; the text level is encoding/json's).
func VHC04Convert() {
	depth := 2
	if vh.Thorough() {
		depth = 3
	}
	doc := c04Tree("t", depth, true)
	v := lang.NewValue(doc)
	g, err := v.ToGoValue()
	vh.Reach("converted")
	vh.Assert(err == nil, "C04: a JSON document converts back without error")
	vh.Assert(jsonEqual(g, doc), "C04: the value handed to the JSON encoder equals the input document (empty containers stay containers)")
}

// VHC04Output: -o output of a program that does not modify the document parses back
// to the input; also through a selector and a BEGINFILE reassignment; json(v) likewise.
func VHC04Output() {
	doc := c04Tree("t", 2, false)
	form := vh.Choose("form", 4)
	var out vh.Out
	var ev *lang.Evaluator
	var err error
	want := doc
	switch form {
	case 0:
		ev, err = lang.EvalProgram("{ x = 1 }", []lang.InputFile{{Name: "f", Reader: &vh.DocStream{Items: []any{doc}}}}, nil, &out, false)
	case 1:
		ev, err = lang.EvalProgram("{ x = 1 }", []lang.InputFile{{Name: "f", Reader: &vh.DocStream{Items: []any{map[string]any{"sub": doc}}}}}, []string{"$.sub"}, &out, false)
	case 2:
		ev, err = lang.EvalProgram("BEGINFILE { $ = $.sub }", []lang.InputFile{{Name: "f", Reader: &vh.DocStream{Items: []any{map[string]any{"sub": doc}}}}}, nil, &out, false)
	case 3:
		ev, err = lang.EvalProgram("BEGINFILE { printf('%s', json($)) }", []lang.InputFile{{Name: "f", Reader: &vh.DocStream{Items: []any{doc}}}}, nil, &out, false)
	}
	k := legal(err, "EvalProgram")
	vh.Assert(k == OK, "C04: the program runs")
	var text string
	if form == 3 {
		text = out.String()
	} else {
		var jerr error
		text, jerr = ev.GetRootJson()
		vh.Assert(jerr == nil, "C04: the root serialises")
	}
	var back any
	perr := json.Unmarshal([]byte(text), &back)
	vh.Reach("serialised")
	vh.Assert(perr == nil, "C04: the JSON output is valid JSON")
	vh.Assert(jsonEqual(back, want), "C04: the JSON output parses to a value equal to the input")
}

type c04Built struct {
	prog string
	want any
}

var c04Programs = []c04Built{
	{"BEGIN { a = []; print json(a) }", []any{}},
	{"BEGIN { a = {}; print json(a) }", map[string]any{}},
	{"BEGIN { a = [[], {}, [[]]]; print json(a) }", []any{[]any{}, map[string]any{}, []any{[]any{}}}},
	{"BEGIN { a.b.c = 1; print json(a) }", map[string]any{"b": map[string]any{"c": 1.0}}},
	{"BEGIN { a[2] = 'x'; print json(a) }", []any{nil, nil, "x"}},
	{"BEGIN { a.l[1].k = true; print json(a) }", map[string]any{"l": []any{nil, map[string]any{"k": true}}}},
	{"BEGIN { a = [1]; a.pop(); print json(a) }", []any{}},
	{"BEGIN { s = [1, 2]; t = [s, s]; print json(t) }", []any{[]any{1.0, 2.0}, []any{1.0, 2.0}}},
	{"BEGIN { o.k = 1; q = [o, {w: o}]; print json(q) }", []any{map[string]any{"k": 1.0}, map[string]any{"w": map[string]any{"k": 1.0}}}},
	{"BEGIN { print json(nosuch) }", nil},
	{"BEGIN { print json('a\"b') }", "a\"b"},
	{"BEGIN { a = [[1], [2]]; x = a; x.popfirst(); a[0] = x; print json(a) }", []any{[]any{[]any{2.0}}, []any{2.0}}},
}

// VHC04Built: json() of program-built values parses back to the value.
func VHC04Built() {
	c := c04Programs[vh.Choose("case", len(c04Programs))]
	out, k := runProg(c.prog)
	vh.Assert(k == OK, "C04: json() of a program-built acyclic value succeeds: "+c.prog)
	var back any
	perr := json.Unmarshal([]byte(out), &back)
	vh.Reach("built value serialised")
	vh.Assert(perr == nil, "C04: json() output is valid JSON: "+c.prog)
	vh.Assert(jsonEqual(back, c.want), "C04: json(v) parses back to v: "+c.prog)
}

var c04Bad = []string{
	"BEGIN { a.a = a; print 'x', json(a) }",
	"BEGIN { b = []; b[0] = 1; b[1] = b; print 'x', json(b) }",
	"BEGIN { a.b.c.a = a; print 'x', json(a) }",
	"BEGIN { a.l = []; a.l[0] = a; print 'x', json(a) }",
	"function f() { return 1 }\nBEGIN { print 'x', json(f) }",
	"function f() { return 1 }\nBEGIN { print 'x', json([1, {k: f}]) }",
	"BEGIN { big = 10; for (i = 0; i < 400; i++) big = big * 10; print 'x', json(big) }",
	"BEGIN { big = 10; for (i = 0; i < 400; i++) big = big * 10; print 'x', json([0 * big]) }",
	"BEGIN { print 'x', json(/re/) }",
}

// VHC04Inexpressible: a value that contains itself, a function, a regex or a non-finite
// number is rejected with a runtime error: no partial output, no endless recursion.
func VHC04Inexpressible() {
	p := c04Bad[vh.Choose("case", len(c04Bad))]
	out, k := runProg(p)
	vh.Reach("inexpressible value rejected")
	vh.Assert(k == ErrRuntime, "C04: json() of a cyclic / inexpressible value is a runtime error: "+p)
	vh.Assert(out == "", "C04: nothing is printed for the failing statement: "+p)
	// the same through -o
	var o vh.Out
	ev, err := lang.EvalProgram("BEGINFILE { $.self = $ }", []lang.InputFile{{Name: "f", Reader: &vh.DocStream{Items: []any{map[string]any{"a": 1.0}}}}}, nil, &o, false)
	vh.Assert(legal(err, "EvalProgram") == OK, "C04: building the cycle succeeds")
	_, jerr := ev.GetRootJson()
	vh.Assert(jerr != nil, "C04: -o on a document that contains itself is an error, not endless recursion")
}

// VHC04Cli: the JSON that the command line's -o option writes - to standard output or
// into a file that may exist already, shorter or longer than the new text - is valid JSON
// equal to the document (the real cli.Run on the OS model; natively on real files).
func VHC04Cli() {
	doc := c04Tree("t", 1, false)
	p := &vh.Proc{Texts: map[string]string{}, Data: map[string]*vh.DocStream{"in.json": {Items: []any{doc}}}}
	toFile := vh.Choose("tofile", 2) == 1
	args := []string{"-o", "-", "{ x = 1 }", "in.json"}
	if toFile {
		args[1] = "out.json"
		switch vh.Choose("existing", 4) {
		case 1:
			p.Texts["out.json"] = "{}"
		case 2:
			p.Texts["out.json"] = "[\n" + strings.Repeat("  \"old old old old\",\n", 40) + "  0\n]\n"
		case 3:
			args = []string{"-o", "in2.json", "{ x = 1 }", "in.json"} // next to the input, not existing
		}
	}
	p.Args = args
	res := vh.RunCLI(cli.Run, p)
	vh.Reach("front end wrote JSON")
	vh.Assert(res.Exit == 0 && res.Stderr == "", "C04: the run succeeds")
	text := res.Stdout
	if toFile {
		vh.Assert(len(res.Written) == 1, "C04: exactly the output file is written")
		text = res.Written[args[1]]
	}
	var back any
	perr := json.Unmarshal([]byte(text), &back)
	vh.Assert(perr == nil, "C04: what -o writes is valid JSON (nothing of an older, longer file survives)")
	vh.Assert(jsonEqual(back, doc), "C04: what -o writes parses to a value equal to the input")
}

// VHC04Deep: values nested to any depth the program can build are written in full by
// json() (there is no depth at which a well-formed value stops being expressible).
func VHC04Deep() {
	d := []int{10, 999, 1000, 1001, 1500, 4000}[vh.Choose("depth", 6)]
	shape := vh.Choose("shape", 2)
	wrap, open := "a = [a]", "["
	if shape == 1 {
		wrap, open = "a = {k: a}", "{"
	}
	out, k := runProg("BEGIN { a = 1; for (i = 0; i < " + itoa(d) + "; i++) { " + wrap + " }\ns = json(a); print s.split('" + open + "').length() }")
	vh.Reach("deep value serialised")
	vh.Assert(k == OK, "C04: json() of a value nested "+itoa(d)+" deep succeeds")
	vh.Assert(out == itoa(d+1)+"\n", "C04: json() of a deeply nested value has every level in it")
}
