// symgo: bounded symbolic execution of jqawk's real SSA (go/ssa) with SMT solvers.
//
//	symgo run <property> [quick|thorough]   run the property's harnesses, write evidence, exit 0/1
//	symgo harness <fn> [paths] [secs]       run one harness, print statistics (development)
//	symgo replay <file>                     replay one counterexample natively
//	symgo selftest                          translator validation on the repo's own tests
package main

import (
	"encoding/json"
	"fmt"
	"os"
	"path/filepath"
	"runtime"
	"runtime/pprof"
	"sort"
	"strconv"
	"strings"
	"time"

	"symgo/interp"
)

type tierCfg struct {
	Paths int `json:"paths"`
	Secs  int `json:"secs"`
}

type harnessCfg struct {
	Fn        string            `json:"fn"`
	What      string            `json:"what"`
	Reach     []string          `json:"reach"`
	Quick     tierCfg           `json:"quick"`
	Thorough  tierCfg           `json:"thorough"`
	MaxInstr  int64             `json:"max_instr"`
	MaxDecisions int            `json:"max_decisions"`
	Intercept map[string]string `json:"intercept"`
	Inpkg     bool              `json:"inpkg"`
	Bounds    string            `json:"bounds"`
	// Only: when set, only violation candidates whose assertion label starts with one of
	// these prefixes count under this property (Go panics always count). Used to carry the
	// C01 obligations of other properties' harnesses under C01 without re-reporting their
	// own assertions there.
	Only []string `json:"only"`
	// ReplayBudget: termination is part of the property: a path that exhausts the step
	// budget is replayed natively under a wall-clock cap; a native crash or timeout is a
	// violation.
	ReplayBudget bool `json:"replay_budget"`
}

type propCfg struct {
	Harnesses   []harnessCfg `json:"harnesses"`
	Assumptions []string     `json:"assumptions"`
	Outside     []string     `json:"outside"`
}

func readRegistry() map[string]propCfg {
	b, err := os.ReadFile(filepath.Join(verifDir(), "harness", "registry.json"))
	if err != nil {
		fatal("registry: %v", err)
	}
	var r map[string]propCfg
	if err := json.Unmarshal(b, &r); err != nil {
		fatal("registry: %v", err)
	}
	return r
}

func fatal(f string, a ...any) {
	fmt.Fprintf(os.Stderr, "symgo: "+f+"\n", a...)
	os.Exit(2)
}

func set(xs []string) map[string]bool {
	m := map[string]bool{}
	for _, x := range xs {
		m[x] = true
	}
	return m
}

func mkConfig(l *loaded, h harnessCfg, t tierCfg, thorough bool) *interp.Config {
	cfg := &interp.Config{
		Main:          l.ext,
		Harness:       h.Fn,
		Sizes:         stdSizes,
		Workers:       workers(),
		MaxPaths:      t.Paths,
		MaxInstr:      h.MaxInstr,
		MaxDecisions:  h.MaxDecisions,
		Deadline:      time.Now().Add(time.Duration(t.Secs) * time.Second),
		FeasTimeoutMs: 10000,
		AssertTimeMs:  20000,
		FallbackMs:    60000,
		MutablePkgs:   set(mutablePkgs),
		InitAllow:     set(initAllow),
		Intercept:     h.Intercept,
		MaxViolations: 4,
		SampleEvery:   97,
	}
	if cfg.MaxInstr == 0 {
		cfg.MaxInstr = 5_000_000
	}
	if cfg.MaxPaths == 0 {
		cfg.MaxPaths = 100000
	}
	cfg.Thorough = thorough
	cfg.ReportBudget = h.ReplayBudget
	if thorough {
		cfg.FallbackMs = 300000
		cfg.AssertTimeMs = 60000
	}
	return cfg
}

func workers() int {
	if s := os.Getenv("SYMGO_WORKERS"); s != "" {
		if n, err := strconv.Atoi(s); err == nil && n > 0 {
			return n
		}
	}
	n := runtime.NumCPU()
	if n > 16 {
		n = 16
	}
	return n
}

func main() {
	if len(os.Args) < 2 {
		fatal("usage: symgo run|harness|replay|selftest ...")
	}
	if os.Getenv("SYMGO_SLOWLOG") != "" {
		interp.SlowLog = os.Stderr
		if ms, err := strconv.Atoi(os.Getenv("SYMGO_SLOWLOG")); err == nil && ms > 1 {
			interp.SlowThreshold = time.Duration(ms) * time.Millisecond
		}
	}
	if pf := os.Getenv("SYMGO_CPUPROFILE"); pf != "" {
		f, _ := os.Create(pf)
		pprof.StartCPUProfile(f)
		defer pprof.StopCPUProfile()
	}
	switch os.Args[1] {
	case "run":
		if len(os.Args) < 3 {
			fatal("usage: symgo run <property> [quick|thorough]")
		}
		tier := "quick"
		if len(os.Args) > 3 {
			tier = os.Args[3]
		}
		if t := os.Getenv("VERIF_TIER"); t != "" && len(os.Args) <= 3 {
			tier = t
		}
		os.Exit(runProperty(os.Args[2], tier))
	case "harness":
		devHarness(os.Args[2:])
	case "replay":
		if len(os.Args) < 3 {
			fatal("usage: symgo replay <file>")
		}
		os.Exit(replayFileCmd(os.Args[2]))
	case "selftest":
		os.Exit(selftest())
	default:
		fatal("unknown command %q", os.Args[1])
	}
}

func devHarness(args []string) {
	if len(args) < 1 {
		fatal("usage: symgo harness <fn> [paths] [secs]")
	}
	h := harnessCfg{Fn: args[0]}
	t := tierCfg{Paths: 100000, Secs: 600}
	if len(args) > 1 {
		t.Paths, _ = strconv.Atoi(args[1])
	}
	if len(args) > 2 {
		t.Secs, _ = strconv.Atoi(args[2])
	}
	// pick up intercepts etc. from the registry when the harness is registered
	for _, p := range readRegistry() {
		for _, hc := range p.Harnesses {
			if hc.Fn == h.Fn {
				h = hc
			}
		}
	}
	t0 := time.Now()
	var l *loaded
	var err error
	if h.Inpkg {
		l, err = loadInpkg()
	} else {
		l, err = load(nil)
	}
	if err != nil {
		fatal("%v", err)
	}
	fmt.Printf("loaded in %.1fs; harness functions: %d\n", time.Since(t0).Seconds(), len(l.fnNames))
	cfg := mkConfig(l, h, t, false)
	if n, err := strconv.Atoi(os.Getenv("SYMGO_SAMPLE")); err == nil && n > 0 {
		cfg.SampleEvery = n
	}
	t1 := time.Now()
	st := interp.Explore(cfg)
	printStats(h.Fn, st, time.Since(t1))
	if os.Getenv("SYMGO_NOREPLAY") == "" && (len(st.Viol) > 0 || os.Getenv("SYMGO_SAMPLE") != "") {
		rb, err := buildReplay(l)
		if err != nil {
			fmt.Println("replay build failed:", err)
			return
		}
		defer rb.cleanup()
		for i, v := range st.Viol {
			res := rb.run(h.Fn, v.Model, 60*time.Second)
			fmt.Printf("  replay viol %d [%s:%s]: %s\n", i, v.Kind, v.Label, res.summary())
		}
		for i, s := range st.Samples {
			if i >= 5 {
				break
			}
			res := rb.run(h.Fn, s.Model, 60*time.Second)
			fmt.Printf("  conformance sample path %d: %s\n", s.Path, res.summary())
			if os.Getenv("SYMGO_SAMPLE") != "" {
				fmt.Printf("    engine observed: %q\n    native observed: %q\n", s.Out, strings.Join(res.Observed, "\n"))
			}
		}
	}
}

func printStats(name string, st *interp.Stats, wall time.Duration) {
	fmt.Printf("== %s: paths=%d nontrivial=%d instrs=%d decisions=%d wall=%.1fs solver=%.1fs truncated=%v\n",
		name, st.Paths, st.PathsNontrivial, st.Instrs, st.Decisions, wall.Seconds(), st.SolverDur.Seconds(), st.Truncated)
	fmt.Printf("   obligations=%d syntactic=%d solver=%d inconclusive=%d assume-pruned=%d queries=%v by=%v restarts=%d intercepted=%d\n",
		st.Obligations, st.DischargedSyn, st.DischargedSolv, st.Inconclusive, st.AssumePruned, st.Queries, st.QueriesBy, st.SolverRestarts, st.Intercepted)
	pr := func(t string, m map[string]int) {
		var ks []string
		for k := range m {
			ks = append(ks, k)
		}
		sort.Strings(ks)
		for _, k := range ks {
			fmt.Printf("   %s: %d x %s\n", t, m[k], k)
		}
	}
	pr("reach", st.Reach)
	pr("unsupported", st.Unsup)
	pr("violations", st.ViolCount)
	for i, v := range st.Viol {
		if i >= 8 {
			break
		}
		fmt.Printf("   VIOL[%d] %s %q path=%d choices=%v %s\n      model=%v\n", i, v.Kind, v.Label, v.Path, v.Choices, v.Detail, compactModel(v.Model))
	}
	if interp.LastSolverError != "" {
		fmt.Println("   last solver error:", interp.LastSolverError)
	}
}

func compactModel(m map[string]uint64) string {
	var ks []string
	for k := range m {
		ks = append(ks, k)
	}
	sort.Strings(ks)
	var sb strings.Builder
	for _, k := range ks {
		fmt.Fprintf(&sb, "%s=%d ", k, m[k])
	}
	return sb.String()
}
