#!/bin/bash
# usage: tools/seedregress.sh [jobs] [name-pattern]   re-runs the quick check of every stored seeded change
# (scratch worktree + scratch copy of /verif, /repo untouched) and prints one line per change.
J=${1:-3}; PAT=${2:-.}
export GOFLAGS=-mod=mod GOPROXY=off GOSUMDB=off GOTOOLCHAIN=local
one() {
  NAME=$1; PROP=${NAME%%-*}
  W=/tmp/wt/rg-$NAME; VC=/tmp/wt/rgv-$NAME
  rm -rf "$W" "$VC"; git -C /repo worktree add -q "$W" HEAD 2>/dev/null || { echo "$NAME worktree failed"; return; }
  (cd "$W" && git apply /verif/seeded/$NAME/patch.diff) || { echo "$NAME patch does not apply"; git -C /repo worktree remove --force "$W"; return; }
  mkdir -p "$VC"; rsync -a --exclude .git --exclude build --exclude replays --exclude seeded /verif/ "$VC/"; mkdir -p "$VC/build" "$VC/replays"
  (cd "$VC" && SYMGO_REPO="$W" timeout 1800 ./bin/symgo run $PROP quick > /tmp/rg_$NAME.log 2>&1); RC=$?
  echo "$NAME exit=$RC violations=$(grep -c '^VIOLATION' /tmp/rg_$NAME.log)"
  python3 - "$NAME" "$RC" <<'PY'
import json,sys,re
name,rc=sys.argv[1],int(sys.argv[2])
p='/verif/seeded/%s/meta.json'%name
m=json.load(open(p))
h=sorted(set(re.findall(r'replays/C\d\d-(\w+?)-\d+\.json',open('/tmp/rg_%s.log'%name).read())))
m['regression']={'quick_exit':rc,'caught':rc==1,'caught_by':h}
m['caught_by']=', '.join(h)
json.dump(m,open(p,'w'),indent=1)
PY
  git -C /repo worktree remove --force "$W"; rm -rf "$VC"
}
export -f one
ls /verif/seeded | grep -E "$PAT" | xargs -P "$J" -I{} bash -c 'one {}'
git -C /repo worktree prune
