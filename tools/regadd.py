#!/usr/bin/env python3
"""usage: regadd.py <json-file>  — merges property entries into harness/registry.json"""
import json,sys,os
V=os.path.dirname(os.path.dirname(os.path.abspath(__file__)))
p=os.path.join(V,'harness','registry.json')
reg=json.load(open(p))
new=json.load(open(sys.argv[1]) if sys.argv[1]!='-' else sys.stdin)
for k,v in new.items():
    reg[k]=v
json.dump(dict(sorted(reg.items())),open(p,'w'),indent=1)
print(sorted(reg))
