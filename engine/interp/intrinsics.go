package interp

// Harness intrinsics (package vh) and the encoding/json boundary.

import (
	"encoding/json"
	"fmt"
	"io"
	"go/types"
	"strings"
	"unicode"

)

const VHPath = "github.com/alligator/jqawk/zzverif/vh"

func vhreg(name string, f externalFn) { reg(VHPath+"."+name, f) }

func init() {
	vhreg("Byte", func(fr *frame, args []value) value {
		return symv{fr.eng().newSym(args[0].(string), SBV8), types.Uint8}
	})
	vhreg("Bool", func(fr *frame, args []value) value {
		return symv{fr.eng().newSym(args[0].(string), SBool), types.Bool}
	})
	vhreg("Int", func(fr *frame, args []value) value {
		return symv{fr.eng().newSym(args[0].(string), SBV64), types.Int}
	})
	vhreg("Float", func(fr *frame, args []value) value {
		return symv{FPFromBits(fr.eng().newSym(args[0].(string), SBV64)), types.Float64}
	})
	vhreg("IntRange", func(fr *frame, args []value) value {
		e := fr.eng()
		s := e.newSym(args[0].(string), SBV64)
		lo, hi := asInt64(args[1]), asInt64(args[2])
		e.assume(mkBool(And(BVCmp("bvsge", s, BVConst(uint64(lo), 64)), BVCmp("bvsle", s, BVConst(uint64(hi), 64)))))
		return symv{s, types.Int}
	})
	// FloatFrom / IntFrom: a value drawn from a small finite list, as an ite-table over
	// a fresh selector (see table lifting in term.go).
	vhreg("FloatFrom", func(fr *frame, args []value) value {
		e := fr.eng()
		list := args[1].([]value)
		s := e.newSym(args[0].(string), SBV8)
		e.assume(mkBool(BVCmp("bvult", s, BVConst(uint64(len(list)), 8))))
		t := FPConst(list[len(list)-1].(float64))
		for i := len(list) - 2; i >= 0; i-- {
			t = Ite(Eq(s, BVConst(uint64(i), 8)), FPConst(list[i].(float64)), t)
		}
		return mkVal(t, types.Float64)
	})
	vhreg("IntFrom", func(fr *frame, args []value) value {
		e := fr.eng()
		list := args[1].([]value)
		s := e.newSym(args[0].(string), SBV8)
		e.assume(mkBool(BVCmp("bvult", s, BVConst(uint64(len(list)), 8))))
		t := BVConst(uint64(asInt64(list[len(list)-1])), 64)
		for i := len(list) - 2; i >= 0; i-- {
			t = Ite(Eq(s, BVConst(uint64(i), 8)), BVConst(uint64(asInt64(list[i])), 64), t)
		}
		return mkVal(t, types.Int)
	})
	// ByteFrom: a byte drawn from a small set, as an ite-table over a fresh selector (all
	// arithmetic and comparisons on it are lifted to the constant leaves).
	vhreg("ByteFrom", func(fr *frame, args []value) value {
		e := fr.eng()
		set := args[1].(string)
		s := e.newSym(args[0].(string), SBV8)
		e.assume(mkBool(BVCmp("bvult", s, BVConst(uint64(len(set)), 8))))
		t := BVConst(uint64(set[len(set)-1]), 8)
		for i := len(set) - 2; i >= 0; i-- {
			t = Ite(Eq(s, BVConst(uint64(i), 8)), BVConst(uint64(set[i]), 8), t)
		}
		return mkVal(t, types.Uint8)
	})
	vhreg("Bytes", func(fr *frame, args []value) value {
		n := int(asInt64(args[1]))
		b := make([]value, n)
		for i := range b {
			b[i] = symv{fr.eng().newSym(fmt.Sprintf("%s_%d", args[0].(string), i), SBV8), types.Uint8}
		}
		return normStr(b)
	})
	vhreg("Choose", func(fr *frame, args []value) value {
		e := fr.eng()
		n := int(asInt64(args[1]))
		name := args[0].(string)
		s := e.newSym(name, SBV64)
		e.chooses[name] = true
		e.assume(mkBool(BVCmp("bvult", s, BVConst(uint64(n), 64))))
		for i := 0; i < n-1; i++ {
			if e.decide(Eq(s, BVConst(uint64(i), 64))) {
				return i
			}
		}
		return n - 1
	})
	vhreg("Concrete", func(fr *frame, args []value) value {
		return int(fr.concreteInt(args[0], "vh.Concrete"))
	})
	b2 := func(f func(a, b *Term) *Term) externalFn {
		return func(fr *frame, args []value) value { return mkBool(f(boolTerm(args[0]), boolTerm(args[1]))) }
	}
	vhreg("And", b2(And))
	vhreg("Or", b2(Or))
	vhreg("Implies", b2(Implies))
	vhreg("Iff", b2(Eq))
	vhreg("Not", func(fr *frame, args []value) value { return mkBool(Not(boolTerm(args[0]))) })
	vhreg("OneOf", func(fr *frame, args []value) value {
		set := args[1].(string)
		b := bv8(args[0])
		t := TFalse
		for i := 0; i < len(set); i++ {
			t = Or(t, Eq(b, BVConst(uint64(set[i]), 8)))
		}
		return mkBool(t)
	})
	vhreg("InRange", func(fr *frame, args []value) value {
		b := bv8(args[0])
		return mkBool(And(BVCmp("bvuge", b, bv8(args[1])), BVCmp("bvule", b, bv8(args[2]))))
	})
	vhreg("IntIn", func(fr *frame, args []value) value {
		x, _ := termOf(args[0])
		lo, _ := termOf(args[1])
		hi, _ := termOf(args[2])
		return mkBool(And(BVCmp("bvsge", x, lo), BVCmp("bvsle", x, hi)))
	})
	vhreg("EqStr", func(fr *frame, args []value) value {
		return mkBool(strEqTerm(strBytes(args[0]), strBytes(args[1])))
	})
	vhreg("IsFinite", func(fr *frame, args []value) value {
		t, _ := termOf(args[0])
		return mkBool(Not(Or(FPPred("fp.isNaN", t), FPPred("fp.isInfinite", t))))
	})
	vhreg("IsNaN", func(fr *frame, args []value) value {
		t, _ := termOf(args[0])
		return mkBool(FPPred("fp.isNaN", t))
	})
	vhreg("SameFloat", func(fr *frame, args []value) value {
		a, _ := termOf(args[0])
		b, _ := termOf(args[1])
		return mkBool(Eq(a, b))
	})
	vhreg("FloatEq", func(fr *frame, args []value) value {
		a, _ := termOf(args[0])
		b, _ := termOf(args[1])
		return mkBool(FPCmp("fp.eq", a, b))
	})
	vhreg("FloatLt", func(fr *frame, args []value) value {
		a, _ := termOf(args[0])
		b, _ := termOf(args[1])
		return mkBool(FPCmp("fp.lt", a, b))
	})
	ite := func(k types.BasicKind) externalFn {
		return func(fr *frame, args []value) value {
			a, _ := termOf(args[1])
			b, _ := termOf(args[2])
			return mkVal(Ite(boolTerm(args[0]), a, b), k)
		}
	}
	vhreg("IteFloat", ite(types.Float64))
	vhreg("IteInt", ite(types.Int))
	vhreg("IteBool", ite(types.Bool))
	vhreg("Assume", func(fr *frame, args []value) value { fr.eng().assume(args[0]); return nil })
	vhreg("Assert", func(fr *frame, args []value) value { fr.eng().assert(args[0], args[1].(string)); return nil })
	vhreg("Reach", func(fr *frame, args []value) value {
		e := fr.eng()
		e.sh.mu.Lock()
		e.sh.St.Reach[args[0].(string)]++
		e.sh.mu.Unlock()
		return nil
	})
	vhreg("Observe", func(fr *frame, args []value) value {
		if s, ok := args[0].(string); ok {
			fr.eng().observe = append(fr.eng().observe, s)
		} else {
			fr.eng().observe = append(fr.eng().observe, "<symbolic>")
		}
		return nil
	})
	vhreg("Thorough", func(fr *frame, args []value) value { return fr.eng().cfg.Thorough })
	vhreg("Repeats", func(fr *frame, args []value) value { return 1 })
	vhreg("MapOrders", func(fr *frame, args []value) value {
		fr.i.mapOrders = int(asInt64(args[0]))
		fr.i.orderDecided = false
		return nil
	})

	// unicode predicates on symbolic Latin-1 runes (what the byte lexer produces),
	// read off the host's tables; larger symbolic runes are outside the model.
	pred := func(name string, f func(rune) bool) {
		reg(name, func(fr *frame, args []value) value {
			s, ok := args[0].(symv)
			if !ok {
				return f(args[0].(rune))
			}
			e := fr.eng()
			if !e.decide(And(BVCmp("bvsge", s.T, BVConst(0, 32)), BVCmp("bvsle", s.T, BVConst(255, 32)))) {
				unsup("%s on a symbolic rune >= 256", name)
			}
			t := TFalse
			lo := -1
			flush := func(hi int) {
				if lo >= 0 {
					t = Or(t, And(BVCmp("bvsge", s.T, BVConst(uint64(lo), 32)), BVCmp("bvsle", s.T, BVConst(uint64(hi), 32))))
					lo = -1
				}
			}
			for r := 0; r < 256; r++ {
				if f(rune(r)) {
					if lo < 0 {
						lo = r
					}
				} else {
					flush(r - 1)
				}
			}
			flush(255)
			return mkBool(t)
		})
	}
	pred("unicode.IsDigit", unicode.IsDigit)
	pred("unicode.IsLetter", unicode.IsLetter)
	pred("unicode.IsSpace", unicode.IsSpace)
	pred("unicode.IsUpper", unicode.IsUpper)
	pred("unicode.IsLower", unicode.IsLower)

	initJSON()
}

// ---- encoding/json ----

type hostDecoder struct{ d *json.Decoder }

// rdDecoder is the contract-level model of json.Decoder over an arbitrary io.Reader
// whose data are item markers produced by vh.DocStream's Read intrinsic. The reader
// (and any wrapper around the DocStream) is driven through its own, interpreted, Read
// method; the model follows go1.23 encoding/json/stream.go: data delivered in a Read call
// are consumed before the error of that call is looked at; More is false on ] } and
// when the reader has failed; Decode returns io.EOF at a clean end, a sticky syntax
// error, io.ErrUnexpectedEOF, or the reader's error.
type rdDecoder struct {
	r        iface
	queue    []value // complete items (iface values) or jsonHead for a value still arriving
	rerr     value   // the reader's error (iface), once it has reported one
	stuck    value   // sticky decoder error
	consumed bool    // at least one value was decoded (its trailing newline is still buffered)
}

func (d *rdDecoder) fill(fr *frame) {
	buf := make([]value, 64)
	for i := range buf {
		buf[i] = byte(0)
	}
	res := callMethod(fr, d.r, "Read", buf).(tuple)
	n := int(fr.concreteInt(res[0], "Read count"))
	if n < 0 || n > len(buf) {
		panic("runtime error: slice bounds out of range (reader returned a bad count)")
	}
	for i := 0; i < n; i++ {
		// the decoder stops at the first byte that is not JSON: the raw bytes after it are
		// never looked at
		if len(d.queue) > 0 {
			switch d.queue[len(d.queue)-1].(type) {
			case jsonGarbage, jsonStray:
				switch buf[i].(type) {
				case byte, symv:
					continue
				}
			}
		}
		switch b := buf[i].(type) {
		case jsonItem:
			d.queue = append(d.queue, b.item)
		case jsonHead:
			d.queue = append(d.queue, b)
		case jsonTail:
			if n := len(d.queue); n > 0 {
				if h, ok := d.queue[n-1].(jsonHead); ok && h.idx == b.idx {
					d.queue[n-1] = b.item // the value is complete now
					break
				}
			}
			unsup("json decoder model: the end of a value arrived without its beginning")
		case byte:
			switch {
			case b == ' ' || b == '\n' || b == '\t' || b == '\r':
			case b == ']' || b == '}':
				d.queue = append(d.queue, jsonStray{})
			case strings.IndexByte("\"{[-0123456789tfn", b) >= 0:
				unsup("json decoder model: raw byte %q from the reader begins a value", b)
			default:
				d.queue = append(d.queue, jsonGarbage{})
			}
		case symv:
			// a symbolic raw byte: white space is skipped, a closing bracket is stray, the
			// beginning of a value is outside the model, anything else is a syntax error
			eq := func(set string) *Term {
				c := TFalse
				for i := 0; i < len(set); i++ {
					c = Or(c, Eq(b.T, konst(b.T.Sort, uint64(set[i]))))
				}
				return c
			}
			switch {
			case fr.i.eng.decide(eq(" \n\t\r")):
			case fr.i.eng.decide(eq("]}")):
				d.queue = append(d.queue, jsonStray{})
			case fr.i.eng.decide(eq("\"{[-0123456789tfn")):
				unsup("json decoder model: a symbolic raw byte may begin a value")
			default:
				d.queue = append(d.queue, jsonGarbage{})
			}
		default:
			unsup("json decoder model: unexpected buffer element %T", b)
		}
	}
	if e, ok := res[1].(iface); ok && e.t != nil {
		d.rerr = e
	}
}

func sameIface(a, b value) bool {
	x, ok1 := a.(iface)
	y, ok2 := b.(iface)
	if !ok1 || !ok2 || x.t == nil || y.t == nil {
		return false
	}
	px, okx := x.v.(*value)
	py, oky := y.v.(*value)
	return okx && oky && px == py
}

var emptyIface = types.NewInterfaceType(nil, nil).Complete()
var sliceAny = types.NewSlice(emptyIface)
var mapStrAny = types.NewMap(types.Typ[types.String], emptyIface)

func toInterp(x any) value {
	switch v := x.(type) {
	case nil:
		return iface{}
	case bool:
		return iface{types.Typ[types.Bool], v}
	case float64:
		return iface{types.Typ[types.Float64], v}
	case string:
		return iface{types.Typ[types.String], v}
	case []any:
		out := make([]value, len(v))
		for i, e := range v {
			out[i] = toInterp(e)
		}
		return iface{sliceAny, out}
	case map[string]any:
		m := make(map[value]value)
		for k, e := range v {
			m[k] = toInterp(e)
		}
		return iface{mapStrAny, m}
	}
	panic("toInterp")
}

func toHost(v value) any {
	switch x := v.(type) {
	case iface:
		if x.t == nil {
			return nil
		}
		return toHost(x.v)
	case []value:
		if x == nil {
			return []any(nil)
		}
		out := make([]any, len(x))
		for i, e := range x {
			out[i] = toHost(e)
		}
		return out
	case map[value]value:
		if x == nil {
			return map[string]any(nil)
		}
		out := map[string]any{}
		for k, e := range x {
			ks, ok := k.(string)
			if !ok {
				unsup("json: symbolic object key")
			}
			out[ks] = toHost(e)
		}
		return out
	case bool, float64, string:
		return x
	case int:
		return x
	case symv, symStr:
		unsup("json.MarshalIndent of a value with symbolic leaves")
	}
	panic("toHost: " + toString(v))
}

const (
	fGarbage    = 1
	fStrayClose = 2
	fTruncated  = 3
	fReadErr    = 4
)


// DocStream field indices (vh.DocStream{Items, OnRead, Mode, chunks, next, pending, pendingErr}).
const (
	dsItems         = 0
	dsSymPending    = 5 // vh.DocStream.pending: under symgo the slots of a chunk that did not fit the buffer
	dsSymPendingErr = 6
)

func vhGlobal(fr *frame, name string) value {
	g := fr.i.prog.ImportedPackage(VHPath).Var(name)
	if c, ok := fr.i.globals[g]; ok {
		return *c
	}
	return *fr.i.base.globals[g]
}

// markers standing for (parts of) DocStream items in a read buffer
type jsonItem struct{ item value } // a whole item
type jsonHead struct{ idx int }    // the first half of a value
type jsonTail struct {             // the rest of it
	idx  int
	item value
}

// emitChunkSym is the symbolic twin of vh.emitChunk: one marker per part.
func emitChunkSym(fr *frame, args []value) value {
	st := (*args[0].(*value)).(structure)
	p := args[1].([]value)
	c := args[2].(structure) // chunk{Parts, Err, Delivered}
	items, _ := st[dsItems].([]value)
	parts, _ := c[0].([]value)
	var slots []value
	for _, pv := range parts {
		pt := pv.(structure) // part{Kind, Idx}
		kind, idx := int(asInt64(pt[0])), int(asInt64(pt[1]))
		switch kind {
		case 0:
			if bs, ok := garbageBytes(items[idx]); ok {
				slots = append(slots, bs...) // short non-JSON text travels as its own bytes
				break
			}
			slots = append(slots, jsonItem{items[idx]})
		case 1:
			slots = append(slots, jsonHead{idx})
		case 2:
			slots = append(slots, jsonTail{idx, items[idx]})
		}
	}
	if len(p) < len(slots) {
		// the caller's buffer is shorter than the chunk: the rest is served by later reads
		st[dsSymPending] = append([]value{}, slots[len(p):]...)
		st[dsSymPendingErr] = c[1]
		copy(p, slots[:len(p)])
		return tuple{len(p), iface{}}
	}
	copy(p, slots)
	return tuple{len(slots), c[1]}
}

// garbageBytes: the bytes of a Garbage fault whose text is 1-4 (possibly symbolic) bytes.
func garbageBytes(item value) ([]value, bool) {
	it, ok := item.(iface)
	if !ok || it.t == nil || !strings.HasSuffix(it.t.String(), "vh.Fault") {
		return nil, false
	}
	st := it.v.(structure)
	if int(asInt64(st[0])) != fGarbage {
		return nil, false
	}
	switch t := st[1].(type) {
	case string:
		if len(t) >= 1 && len(t) <= 4 && t != "@@" {
			out := make([]value, len(t))
			for i := range out {
				out[i] = t[i]
			}
			return out, true
		}
	case symStr:
		if len(t.B) >= 1 && len(t.B) <= 4 {
			return append([]value{}, t.B...), true
		}
	}
	return nil, false
}

// raw bytes met between values by the decoder model
type jsonGarbage struct{}
type jsonStray struct{}

// faultKind returns 0 for a JSON value, or the fault kind of the item.
func faultKind(item value) int {
	switch item.(type) {
	case jsonGarbage:
		return fGarbage
	case jsonStray:
		return fStrayClose
	}
	it, ok := item.(iface)
	if !ok || it.t == nil {
		return 0
	}
	if strings.HasSuffix(it.t.String(), "vh.Fault") {
		return int(asInt64(it.v.(structure)[0]))
	}
	return 0
}

func ioEOF(fr *frame) value {
	g := fr.i.prog.ImportedPackage("io").Var("EOF")
	if c, ok := fr.i.globals[g]; ok {
		return *c
	}
	return *fr.i.base.globals[g]
}

func ioErrUnexpectedEOF(fr *frame) value {
	g := fr.i.prog.ImportedPackage("io").Var("ErrUnexpectedEOF")
	if c, ok := fr.i.globals[g]; ok {
		return *c
	}
	return *fr.i.base.globals[g]
}

// jsonSyntaxError builds a *json.SyntaxError (the decoder model's errors carry the real
// decoder's dynamic types, which code under test may inspect with errors.As).
func jsonSyntaxError(fr *frame, msg string) value {
	pkg := fr.i.prog.ImportedPackage("encoding/json")
	if pkg == nil || pkg.Type("SyntaxError") == nil {
		return mkError(fr, msg)
	}
	t := pkg.Type("SyntaxError").Type()
	var box value = structure{msg, int64(0)}
	return iface{types.NewPointer(t), &box}
}

// errors.Is / errors.As over the interpreted error chain (the real ones use reflectlite).
func initErrors() {
	unwrap := func(fr *frame, e iface) (value, bool) {
		ms := fr.i.prog.MethodSets.MethodSet(e.t)
		sel := ms.Lookup(nil, "Unwrap")
		if sel == nil {
			return nil, false
		}
		f := fr.i.prog.MethodValue(sel)
		if f == nil || f.Signature.Results().Len() != 1 {
			return nil, false
		}
		if _, isSlice := f.Signature.Results().At(0).Type().Underlying().(*types.Slice); isSlice {
			unsup("errors: Unwrap() []error")
		}
		return call(fr.i, fr, 0, f, []value{e.v}), true
	}
	reg("errors.As", func(fr *frame, args []value) value {
		target, ok := args[1].(iface)
		if !ok || target.t == nil {
			panic("errors: target cannot be nil")
		}
		pt, ok := target.t.Underlying().(*types.Pointer)
		if !ok {
			panic("errors: target must be a non-nil pointer")
		}
		want := pt.Elem()
		slot := target.v.(*value)
		err := args[0]
		for n := 0; n < 64; n++ {
			e, ok := err.(iface)
			if !ok || e.t == nil {
				return false
			}
			if types.Identical(e.t, want) {
				*slot = e.v
				return true
			}
			if it, isItf := want.Underlying().(*types.Interface); isItf && types.Implements(e.t, it) {
				*slot = e
				return true
			}
			next, has := unwrap(fr, e)
			if !has {
				return false
			}
			err = next
		}
		return false
	})
	reg("errors.Is", func(fr *frame, args []value) value {
		err, target := args[0], args[1]
		for n := 0; n < 64; n++ {
			e, ok := err.(iface)
			if !ok || e.t == nil {
				t, ok2 := target.(iface)
				return ok2 && t.t == nil && (!ok || e.t == nil)
			}
			if t, ok2 := target.(iface); ok2 && t.t != nil && types.Identical(e.t, t.t) {
				if sameIface(e, t) || equals(e.t, e.v, t.v) {
					return true
				}
			}
			next, has := unwrap(fr, e)
			if !has {
				return false
			}
			err = next
		}
		return false
	})
}

func initJSON() {
	initErrors()
	reg(VHPath+".emitChunk", emitChunkSym)
	reg("(*encoding/json.Decoder).Buffered", func(fr *frame, args []value) value {
		var text string
		switch d := (*args[0].(*value)).(type) {
		case *rdDecoder:
			// what the real decoder would still hold: the newline after the value just
			// decoded, then whatever arrived behind it
			if d.consumed {
				text = "\n"
			}
			for _, q := range d.queue {
				if _, partial := q.(jsonHead); partial {
					text += "{\"vh\":"
				} else if faultKind(q) != 0 {
					text += "@\n"
				} else {
					text += "{\"vh\":0}\n"
				}
			}
		case hostDecoder:
			b, _ := io.ReadAll(d.d.Buffered())
			text = string(b)
		default:
			panic("json.Decoder.Buffered: bad receiver")
		}
		nr := fr.i.prog.ImportedPackage("strings").Func("NewReader")
		rp := call(fr.i, fr, 0, nr, []value{text})
		return iface{types.NewPointer(fr.i.prog.ImportedPackage("strings").Type("Reader").Type()), rp}
	})
	reg("encoding/json.NewDecoder", func(fr *frame, args []value) value {
		r := args[0].(iface)
		if r.t == nil {
			panic("runtime error: nil io.Reader")
		}
		if p, ok := r.t.(*types.Pointer); ok && p.Elem().String() == "strings.Reader" {
			st := (*r.v.(*value)).(structure) // strings.Reader{s, i, prevRune}
			s, ok := st[0].(string)
			if !ok {
				unsup("json.NewDecoder over a symbolic string")
			}
			off := int(asInt64(st[1]))
			var box value = hostDecoder{json.NewDecoder(strings.NewReader(s[off:]))}
			return &box
		}
		// any other reader: the model pulls item markers through its Read method
		var box value = &rdDecoder{r: r}
		return &box
	})
	reg("(*encoding/json.Decoder).More", func(fr *frame, args []value) value {
		switch d := (*args[0].(*value)).(type) {
		case *rdDecoder:
			if d.stuck != nil {
				return false // err != nil
			}
			for len(d.queue) == 0 {
				if d.rerr != nil {
					return false
				}
				d.fill(fr)
			}
			if _, partial := d.queue[0].(jsonHead); partial {
				return true
			}
			switch faultKind(d.queue[0]) {
			case fStrayClose:
				return false
			}
			return true
		case hostDecoder:
			return d.d.More()
		}
		panic("json.Decoder.More: bad receiver")
	})
	reg("(*encoding/json.Decoder).Decode", func(fr *frame, args []value) value {
		switch d := (*args[0].(*value)).(type) {
		case *rdDecoder:
			if d.stuck != nil {
				return d.stuck
			}
			for len(d.queue) == 0 {
				if d.rerr != nil {
					if sameIface(d.rerr, ioEOF(fr)) {
						return ioEOF(fr)
					}
					d.stuck = d.rerr
					return d.stuck
				}
				d.fill(fr)
			}
			for {
				if _, partial := d.queue[0].(jsonHead); !partial {
					break
				}
				// the value is still arriving: the decoder reads on
				if d.rerr != nil {
					if sameIface(d.rerr, ioEOF(fr)) {
						d.stuck = ioErrUnexpectedEOF(fr)
					} else {
						d.stuck = d.rerr
					}
					return d.stuck
				}
				d.fill(fr)
			}
			item := d.queue[0]
			switch faultKind(item) {
			case 0:
				d.queue = d.queue[1:]
				d.consumed = true
				target := args[1].(iface).v.(*value)
				*target = item
				return iface{}
			case fGarbage, fStrayClose:
				d.stuck = jsonSyntaxError(fr, "invalid character looking for beginning of value")
			case fTruncated:
				d.queue = d.queue[1:]
				// the decoder needs more data: it reads on until the reader gives up
				for d.rerr == nil {
					d.fill(fr)
					if len(d.queue) > 0 {
						unsup("json decoder model: data after a truncated value")
					}
				}
				if sameIface(d.rerr, ioEOF(fr)) {
					d.stuck = ioErrUnexpectedEOF(fr)
				} else {
					d.stuck = d.rerr
				}
			default:
				unsup("json decoder model: unexpected item kind")
			}
			return d.stuck
		case hostDecoder:
			var x any
			err := d.d.Decode(&x)
			if err != nil {
				if err.Error() == "EOF" {
					return ioEOF(fr)
				}
				return mkError(fr, err.Error())
			}
			target := args[1].(iface).v.(*value)
			*target = toInterp(x)
			return iface{}
		}
		panic("json.Decoder.Decode: bad receiver")
	})
	reg("encoding/json.MarshalIndent", func(fr *frame, args []value) value {
		b, err := json.MarshalIndent(toHost(args[0]), args[1].(string), args[2].(string))
		if err != nil {
			var nb []value
			return tuple{nb, mkError(fr, err.Error())}
		}
		out := make([]value, len(b))
		for i, c := range b {
			out[i] = c
		}
		return tuple{out, iface{}}
	})
	reg("encoding/json.Unmarshal", func(fr *frame, args []value) value {
		data := args[0].([]value)
		bs := make([]byte, len(data))
		for i, b := range data {
			c, ok := b.(byte)
			if !ok {
				unsup("json.Unmarshal of symbolic bytes")
			}
			bs[i] = c
		}
		var x any
		if err := json.Unmarshal(bs, &x); err != nil {
			return mkError(fr, err.Error())
		}
		target := args[1].(iface).v.(*value)
		*target = toInterp(x)
		return iface{}
	})
	reg("encoding/json.Marshal", func(fr *frame, args []value) value {
		b, err := json.Marshal(toHost(args[0]))
		if err != nil {
			var nb []value
			return tuple{nb, mkError(fr, err.Error())}
		}
		out := make([]value, len(b))
		for i, c := range b {
			out[i] = c
		}
		return tuple{out, iface{}}
	})
}
