package ext

import (
	"math"
	"strconv"
	"strings"

	"github.com/alligator/jqawk/zzverif/vh"
)

// C18 reference formatter (DESIGN.md §3.4).

type c18Arg struct {
	kind int // kNum kStr kBool kNull
	num  float64
	str  string
	b    bool
}

var c18Nums = []float64{7, -2.5, 123456, math.Copysign(0, -1), 1152921504606846976, 9007199254740993, 1e21}

func c18MkArg(name string) (any, c18Arg) {
	switch vh.Choose(name+"k", 4) {
	case 0:
		n := c18Nums[vh.Choose(name+"n", len(c18Nums))]
		return n, c18Arg{kind: kNum, num: n}
	case 1:
		s := vh.Bytes(name+"s", vh.Choose(name+"l", 3))
		return s, c18Arg{kind: kStr, str: s}
	case 2:
		b := vh.Bool(name + "b")
		return b, c18Arg{kind: kBool, b: b}
	}
	return nil, c18Arg{kind: kNull}
}

// c18Render returns the rendering of arg for the directive, or ok=false.
func c18Render(d byte, a c18Arg) (string, bool) {
	switch d {
	case 's':
		if a.kind != kStr {
			return "", false
		}
		return a.str, true
	case 'f':
		if a.kind != kNum {
			return "", false
		}
		return strconv.FormatFloat(a.num, 'f', -1, 64), true
	case 'v':
		switch a.kind {
		case kStr:
			return a.str, true
		case kNum:
			return strconv.FormatFloat(a.num, 'f', -1, 64), true
		case kBool:
			if a.b {
				return "true", true
			}
			return "false", true
		}
		return "null", true
	}
	return "", false
}

func c18Pad(r string, w int, zero bool) string {
	pc := " "
	if zero {
		pc = "0"
	}
	if w > 0 && len(r) < w {
		return strings.Repeat(pc, w-len(r)) + r
	}
	if w < 0 && len(r) < -w {
		return r + strings.Repeat(pc, -w-len(r))
	}
	return r
}

// VHC18Directive: one directive with flags, symbolic width digits and a symbolic
// directive byte between two literal pieces; argument lists of 0-2 values.
func VHC18Directive() {
	lit1 := vh.Bytes("l1", 1)
	lit2 := vh.Bytes("l2", 1)
	for i := 0; i < len(lit1); i++ {
		vh.Assume(vh.Not(vh.OneOf(lit1[i], "%'\\")))
	}
	for i := 0; i < len(lit2); i++ {
		vh.Assume(vh.Not(vh.OneOf(lit2[i], "%'\\")))
	}
	neg := vh.Choose("neg", 2) == 1
	nd := vh.Choose("ndigits", 3)
	digits := vh.Bytes("w", nd)
	w := 0
	for i := 0; i < nd; i++ {
		vh.Assume(vh.InRange(digits[i], '0', '9'))
		w = w*10 + int(digits[i]-'0')
	}
	maxW := 6
	if vh.Thorough() {
		maxW = 12
	}
	vh.Assume(vh.IntIn(w, 0, maxW)) // padding harness: small widths (the Repeat count is concretised)
	zero := false
	if nd > 0 {
		if digits[0] == '0' {
			zero = true
		}
	}
	if neg && zero {
		return // "-0N": which pad character applies is left open
	}
	if neg && nd == 0 {
		// "%-" followed by the directive: a dangling / invalid width
	}
	d := vh.Byte("d")
	vh.Assume(vh.OneOf(d, "sfv%x"))
	nargs := vh.Choose("nargs", 3)
	doc := map[string]any{}
	var specs []c18Arg
	call := ""
	for i := 0; i < nargs; i++ {
		var a any
		var sp c18Arg
		if i == 0 {
			a, sp = c18MkArg("a" + itoa(i))
		} else {
			a, sp = "zz", c18Arg{kind: kStr, str: "zz"} // a surplus argument
		}
		doc["a"+itoa(i)] = a
		specs = append(specs, sp)
		call += ", $.a" + itoa(i)
	}
	format := lit1 + "%"
	if neg {
		format += "-"
	}
	format += digits + string([]byte{d}) + lit2
	_, k, out := evalExpr("printf('"+format+"'"+call+")", doc)
	vh.Reach("printf evaluated")

	if neg {
		w = -w
	}
	// reference
	switch {
	case neg && nd == 0:
		vh.Assert(k == ErrRuntime && out == "", "C18: '%-' without digits is an error and writes nothing")
		return
	case d == '%':
		if nd == 0 && !neg {
			vh.Assert(k == OK && out == lit1+"%"+lit2, "C18: %% writes one percent sign")
		}
		return // a width on %% is left open
	case d == 'x':
		vh.Assert(k == ErrRuntime && out == "", "C18: an unknown directive is an error and writes nothing")
		return
	}
	if nargs == 0 {
		vh.Assert(k == ErrRuntime && out == "", "C18: a directive without an argument is an error and writes nothing")
		return
	}
	r, ok := c18Render(d, specs[0])
	if !ok {
		vh.Assert(k == ErrRuntime && out == "", "C18: an argument of the wrong kind is an error and writes nothing")
		return
	}
	vh.Reach("directive rendered")
	vh.Assert(k == OK, "C18: a well-formed printf must not fail (surplus arguments are ignored)")
	vh.Assert(out == lit1+c18Pad(r, w, zero)+lit2, "C18: the directive is replaced by the rendering padded to the width; nothing else is written")
}

// VHC18Shapes: several directives, dangling %, dangling width, argument advance,
// the width limit.
func VHC18Shapes() {
	s1 := vh.Bytes("s1", 1)
	s2 := vh.Bytes("s2", 2)
	doc := map[string]any{"a": s1, "b": s2, "n": 4.5}
	switch vh.Choose("shape", 17) {
	case 16:
		// literal text is copied byte for byte, whatever the bytes (Latin-1, stray
		// continuation bytes, a truncated multi-byte sequence)
		lit := []string{"caf\xe9 ", "\x80\xbf|", "\xe6\x97", "\xff\xfe\xfd", "ok \u00e9 \xe9"}[vh.Choose("rawlit", 5)]
		_, k, out := evalExpr("printf('"+lit+"%s"+lit+"', $.a)", doc)
		vh.Assert(k == OK && out == lit+s1+lit, "C18: the literal text of a format is written byte for byte")
	case 14:
		// a regex is not a string: neither as the format nor as a %s argument
		_, k, out := evalExpr([]string{"printf('<%s>', /ab+c/)", "printf(/x%sy/, 'a')", "printf('%5s|', /a/)", "printf('%f', /1/)"}[vh.Choose("re", 4)], doc)
		vh.Assert(k == ErrRuntime && out == "", "C18: a regex where a string (or number) is required is an error and writes nothing")
	case 15:
		// %f and %v render a number the same way (shortest positional decimal, sign of -0 kept)
		n := c18Nums[vh.Choose("fn", len(c18Nums))]
		doc["m"] = n
		_, k, out := evalExpr("printf('%f|%v|%3f', $.m, $.m, $.m)", doc)
		r := strconv.FormatFloat(n, 'f', -1, 64)
		vh.Assert(k == OK && out == r+"|"+r+"|"+c18Pad(r, 3, false), "C18: %f renders like %v and print")
	case 13:
		// widths count bytes, also for text with multi-byte characters
		u := []string{"n\u00e9", "\u65e5\u672c", "\U0001F600"}[vh.Choose("mb", 3)]
		doc["u"] = u
		_, k, out := evalExpr("printf('%5s|%-5v|%05s|%2s', $.u, $.u, $.u, $.u)", doc)
		vh.Assert(k == OK && out == c18Pad(u, 5, false)+"|"+c18Pad(u, -5, false)+"|"+c18Pad(u, 5, true)+"|"+u, "C18: a width is a number of bytes, also for multi-byte text")
	case 12:
		// widths around every power of two an implementation might wrap at
		w := []string{"65537", "2147483648", "4294967296", "4294967303", "9223372036854775807", "9223372036854775815", "18446744073709551616", "18446744073709551623", "99999999999999999999", "340282366920938463463374607431768211463"}[vh.Choose("hugew", 10)]
		flag := []string{"", "-", "0"}[vh.Choose("hugef", 3)]
		verb := []string{"s", "v", "f"}[vh.Choose("hugev", 3)]
		arg := "$.a"
		if verb == "f" {
			arg = "$.n"
		}
		_, k, out := evalExpr("printf('x%"+flag+w+verb+"', "+arg+")", doc)
		vh.Assert(k == ErrRuntime && out == "", "C18: a width beyond 65536 is an error and writes nothing, however many digits it has: "+flag+w)
	case 0:
		_, k, out := evalExpr("printf('%s|%s', $.a, $.b)", doc)
		vh.Assert(k == OK && out == s1+"|"+s2, "C18: directives consume arguments in order")
	case 1:
		_, k, out := evalExpr("printf('%3s%-3s.', $.a, $.b)", doc)
		vh.Assert(k == OK && out == "  "+s1+s2+" .", "C18: each directive has its own width")
	case 2:
		_, k, out := evalExpr("printf('ab%')", doc)
		vh.Assert(k == ErrRuntime && out == "", "C18: a dangling % is an error and writes nothing")
	case 3:
		_, k, out := evalExpr("printf('ab%5')", doc)
		vh.Assert(k == ErrRuntime && out == "", "C18: a dangling width is an error and writes nothing")
	case 4:
		_, k, out := evalExpr("printf('%s %s', $.a)", doc)
		vh.Assert(k == ErrRuntime && out == "", "C18: a missing second argument is an error and the first directive's text is not written")
	case 5:
		_, k, out := evalExpr("printf('%f|%v|%v', $.n, $.n, $.a)", doc)
		vh.Assert(k == OK && out == "4.5|4.5|"+s1, "C18: %f and %v renderings")
	case 6:
		_, k, out := evalExpr("printf('%65536s', $.a)", doc)
		vh.Assert(k == OK && len(out) == 65536, "C18: a width of 65536 is still accepted")
	case 7:
		d := vh.Bytes("big", 5)
		v := 0
		for i := 0; i < 5; i++ {
			vh.Assume(vh.InRange(d[i], '0', '9'))
			v = v*10 + int(d[i]-'0')
		}
		vh.Assume(vh.IntIn(v, 65537, 99999))
		neg := ""
		if vh.Choose("bigneg", 2) == 1 {
			neg = "-"
		}
		_, k, out := evalExpr("printf('x%"+neg+d+"s', $.a)", doc)
		vh.Assert(k == ErrRuntime && out == "", "C18: a width beyond 65536 is an error and writes nothing")
	case 8:
		_, k, out := evalExpr("printf()", doc)
		vh.Assert(k == ErrRuntime && out == "", "C18: printf without a format is an error")
	case 9:
		_, k, out := evalExpr("printf($.n)", doc)
		vh.Assert(k == ErrRuntime && out == "", "C18: a non-string format is an error")
	case 10:
		_, k, out := evalExpr("printf('%5v|%-5v|%05v', $.a, $.n, $.n)", doc)
		vh.Assert(k == OK && out == "    "+s1+"|4.5  |004.5", "C18: %v honours widths like the other directives")
	case 11:
		_, k, out := evalExpr("printf('%s', $.a, $.b, $.n)", doc)
		vh.Assert(k == OK && out == s1, "C18: surplus arguments are ignored, no separators or newline are added")
	}
	vh.Reach("shape evaluated")
}

var c18Flags = []string{"", "-", "0"}

// VHC18Two: two directives in one format, each with its own flag (none, '-', '0'),
// width and kind: padding of one directive must not influence the other.
func VHC18Two() {
	s1 := vh.Bytes("s1", 1)
	s2 := vh.Bytes("s2", 1)
	doc := map[string]any{"a": s1, "b": s2, "n": 1.5}
	kinds := []string{"s", "f", "v"}
	k1, k2 := kinds[vh.Choose("k1", 3)], kinds[vh.Choose("k2", 3)]
	f1, f2 := c18Flags[vh.Choose("f1", 3)], c18Flags[vh.Choose("f2", 3)]
	w1, w2 := 2+vh.Choose("w1", 3), 2+vh.Choose("w2", 3)
	arg := func(k, which string) (string, string) {
		if k == "f" {
			return "$.n", "1.5"
		}
		if which == "a" {
			return "$.a", s1
		}
		return "$.b", s2
	}
	a1, r1 := arg(k1, "a")
	a2, r2 := arg(k2, "b")
	format := "[%" + f1 + itoa(w1) + k1 + "][%" + f2 + itoa(w2) + k2 + "]"
	_, k, out := evalExpr("printf('"+format+"', "+a1+", "+a2+")", doc)
	pad := func(r, f string, w int) string {
		switch f {
		case "-":
			return c18Pad(r, -w, false)
		case "0":
			return c18Pad(r, w, true)
		}
		return c18Pad(r, w, false)
	}
	vh.Reach("two directives evaluated")
	vh.Assert(k == OK, "C18: two well-formed directives must not fail")
	vh.Assert(out == "["+pad(r1, f1, w1)+"]["+pad(r2, f2, w2)+"]", "C18: each directive is padded by its own flag and width: "+format)
}

// VHC18Atomic: a printf that fails writes nothing, however much output the directives
// before the failing one have already produced (wide paddings, long literals, long
// arguments) and whatever the kind of failure.
func VHC18Atomic() {
	s1 := vh.Bytes("s1", 1)
	long := strings.Repeat("0123456789", 900)
	doc := map[string]any{"a": s1, "n": 2.5, "long": long}
	heads := []string{"%3s", "%9000s", "%-8192s", "%65536v", "%09000v", "%s%s|" + long[:500]}
	args := []string{"$.a", "$.a", "$.a", "$.a", "$.a", "$.long, $.long"}
	faults := []string{"%s", "%q", "%", "%5", "%-", "%f", "%70000s"}
	fargs := []string{"", ", 1", "", "", "", ", $.a", ", $.a"}
	h := vh.Choose("head", len(heads))
	f := vh.Choose("fault", len(faults))
	_, k, out := evalExpr("printf('"+heads[h]+"|"+faults[f]+"', "+args[h]+fargs[f]+")", doc)
	vh.Reach("failing printf evaluated")
	vh.Assert(k == ErrRuntime, "C18: the failing directive makes the printf a runtime error: "+heads[h][:3]+" "+faults[f])
	vh.Assert(out == "", "C18: a failing printf writes nothing, whatever was formatted before the failure: "+heads[h][:3]+" "+faults[f])
	// and the same format without the failing part writes it all at once
	_, k2, out2 := evalExpr("printf('"+heads[h]+"|', "+args[h]+")", doc)
	vh.Assert(k2 == OK && len(out2) > 3, "C18: without the failing directive the printf succeeds")
}
