package interp

// Program-wide interpreter state shared by all paths and workers: the SSA program and
// the globals of packages that are never written after their initialisers ran.

import (
	"fmt"
	"go/token"
	"sync"

	"golang.org/x/tools/go/ssa"
)

type interpBase struct {
	cfg     *Config
	prog    *ssa.Program
	globals map[*ssa.Global]*value // read-only after construction
	mutable []*ssa.Global          // globals re-created for every path
	proto   *interpreter
	once    sync.Once
}

func newInterpBase(cfg *Config) *interpBase {
	b := &interpBase{cfg: cfg, prog: cfg.Main.Prog, globals: map[*ssa.Global]*value{}}
	i := &interpreter{prog: b.prog, globals: map[*ssa.Global]*value{}, sizes: cfg.Sizes, goroutines: 1, base: b, hooks: map[string]value{}}
	runtimePkg := b.prog.ImportedPackage("runtime")
	if runtimePkg == nil {
		panic("ssa.Program doesn't include runtime package")
	}
	i.runtimeErrorString = runtimePkg.Type("errorString").Object().Type()
	initReflect(i)
	b.proto = i
	for _, pkg := range b.prog.AllPackages() {
		mut := cfg.MutablePkgs[pkg.Pkg.Path()]
		for _, m := range pkg.Members {
			if g, ok := m.(*ssa.Global); ok {
				cell := zero(mustDeref(g.Type()))
				b.globals[g] = &cell
				if mut {
					b.mutable = append(b.mutable, g)
				}
			}
		}
	}
	// Run every allowed initialiser once; the cells of immutable packages are then
	// shared by all paths. (Mutable packages run again per path on fresh cells.)
	func() {
		defer func() {
			if r := recover(); r != nil {
				panic(fmt.Sprintf("initialisation failed: %v @ %s", r, i.where()))
			}
		}()
		i.presetOS()
		call(i, nil, token.NoPos, cfg.Main.Func("init"), nil)
	}()
	return b
}

// newInterp creates the interpreter for one path.
func (b *interpBase) newInterp(e *Engine) *interpreter {
	i := &interpreter{
		prog:               b.prog,
		globals:            make(map[*ssa.Global]*value, len(b.mutable)),
		sizes:              b.cfg.Sizes,
		goroutines:         1,
		base:               b,
		eng:                e,
		symFuncs:           map[string]bool{},
		hooks:              map[string]value{},
		reflectPackage:     b.proto.reflectPackage,
		errorMethods:       b.proto.errorMethods,
		rtypeMethods:       b.proto.rtypeMethods,
		runtimeErrorString: b.proto.runtimeErrorString,
	}
	for _, g := range b.mutable {
		cell := zero(mustDeref(g.Type()))
		i.globals[g] = &cell
	}
	return i
}

// initMutable re-runs the initialisers of the mutable packages (their init$guard
// cells were just reset; immutable packages return at once from theirs).
func (i *interpreter) initMutable() {
	i.presetOS()
	call(i, nil, token.NoPos, i.base.cfg.Main.Func("init"), nil)
}

// presetOS gives os.Args a value before package initialisers run (flag's init reads
// os.Args[0]; package os itself is not initialised: it is the environment).
func (i *interpreter) presetOS() {
	if p := i.prog.ImportedPackage("os"); p != nil {
		if g := p.Var("Args"); g != nil {
			if c, ok := i.globals[g]; ok {
				*c = []value{"jqawk"}
			} else if c, ok := i.base.globals[g]; ok {
				*c = []value{"jqawk"}
			}
		}
	}
}

func (i *interpreter) where() string {
	if i.curFrame == nil || i.curInstr == nil {
		return "?"
	}
	pos := i.curInstr.Pos()
	fr := i.curFrame
	s := fr.fn.String()
	if pos.IsValid() {
		s += " " + i.prog.Fset.Position(pos).String()
	}
	// add a short call chain
	n := 0
	for c := fr.caller; c != nil && n < 6; c = c.caller {
		s += " < " + c.fn.Name()
		n++
	}
	return s
}
