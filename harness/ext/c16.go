package ext

import (
	"math"
	"strconv"

	lang "github.com/alligator/jqawk/src"
	"github.com/alligator/jqawk/zzverif/vh"
)

// VHC16Strings: length counts bytes; upper/lower are per-byte case maps on ASCII;
// split's pieces contain no separator and re-join to the receiver.
func VHC16Strings() {
	n := vh.Choose("n", 4)
	s := vh.Bytes("s", n)
	doc := map[string]any{"s": s}
	switch vh.Choose("method", 4) {
	case 0:
		c, k, _ := evalExpr("$.s.length()", doc)
		checkResult(c, k, sres{kind: resNum, num: float64(n)}, "C16 string length counts bytes")
	case 1, 2:
		for i := 0; i < n; i++ {
			vh.Assume(vh.InRange(s[i], 0, 127)) // symbolic text is ASCII here; multi-byte text: VHC16Concrete
		}
		upper := vh.Choose("method", 4) == 1
		want := make([]byte, n)
		for i := 0; i < n; i++ {
			c := s[i]
			if upper {
				if 'a' <= c && c <= 'z' {
					c -= 'a' - 'A'
				}
			} else {
				if 'A' <= c && c <= 'Z' {
					c += 'a' - 'A'
				}
			}
			want[i] = c
		}
		name := "lower"
		if upper {
			name = "upper"
		}
		c, k, _ := evalExpr("$.s."+name+"()", doc)
		checkResult(c, k, sres{kind: resStr, str: string(want)}, "C16 "+name+" maps ASCII letters, leaves the rest")
		c2, _, _ := evalExpr("$.s", doc)
		vh.Assert(isStr(c2) && *c2.Value.Str == s, "C16 "+name+" returns a copy")
	case 3:
		m := vh.Choose("seplen", 3)
		sep := vh.Bytes("sep", m)
		for i := 0; i < n; i++ {
			vh.Assume(vh.InRange(s[i], 0, 127))
		}
		doc["sep"] = sep
		c, k, _ := evalExpr("$.s.split($.sep)", doc)
		vh.Assert(k == OK && c != nil && c.Value.Tag == lang.ValueArray, "C16 split yields an array")
		pieces := c.Value.Array
		joined := ""
		for i, p := range pieces {
			vh.Assert(isStr(p), "C16 split pieces are strings")
			if i > 0 {
				joined += sep
			}
			joined += *p.Value.Str
			if m > 0 {
				// no piece contains the separator
				ps := *p.Value.Str
				for j := 0; j+m <= len(ps); j++ {
					vh.Assert(ps[j:j+m] != sep, "C16 split: no piece contains the separator")
				}
			}
		}
		vh.Assert(joined == s, "C16 split: the pieces joined by the separator give back the receiver")
		if m == 0 {
			vh.Assert(len(pieces) == n, "C16 split with an empty separator yields one piece per character")
		}
	}
	vh.Reach("string method evaluated")
}

// VHC16Numbers: floor / ceil / round for every double.
func VHC16Numbers() {
	x := vh.Float("x")
	vh.Assume(vh.IsFinite(x))
	doc := map[string]any{"x": x}
	small := vh.And(vh.FloatLt(-4503599627370496.0, x), vh.FloatLt(x, 4503599627370496.0)) // |x| < 2^52
	switch vh.Choose("method", 3) {
	case 0:
		c, k, _ := evalExpr("$.x.floor()", doc)
		vh.Assert(k == OK && isNum(c), "C16 floor yields a number")
		r := *c.Value.Num
		vh.Assert(vh.SameFloat(r, math.Floor(x)), "C16 floor is math.Floor")
		// law, decided by the solver: r integral, r <= x < r+1 (|x| < 2^52; beyond, x is integral and r = x)
		vh.Assert(vh.Implies(small, vh.And(vh.Not(vh.FloatLt(x, r)), vh.FloatLt(x, r+1))), "C16 floor law: r <= x < r+1")
		vh.Assert(vh.Implies(small, vh.FloatEq(float64(int64(r)), r)), "C16 floor law: r is an integer")
		vh.Assert(vh.Implies(vh.Not(small), vh.FloatEq(r, x)), "C16 floor of a huge double is itself")
	case 1:
		c, k, _ := evalExpr("$.x.ceil()", doc)
		vh.Assert(k == OK && isNum(c), "C16 ceil yields a number")
		r := *c.Value.Num
		vh.Assert(vh.SameFloat(r, math.Ceil(x)), "C16 ceil is math.Ceil")
		vh.Assert(vh.Implies(small, vh.And(vh.Not(vh.FloatLt(r, x)), vh.FloatLt(r-1, x))), "C16 ceil law: r-1 < x <= r")
		vh.Assert(vh.Implies(small, vh.FloatEq(float64(int64(r)), r)), "C16 ceil law: r is an integer")
	case 2:
		c, k, _ := evalExpr("$.x.round()", doc)
		vh.Assert(k == OK && isNum(c), "C16 round yields a number")
		r := *c.Value.Num
		vh.Assert(vh.SameFloat(r, math.Round(x)), "C16 round is math.Round (halves away from zero)")
		d := r - x
		vh.Assert(vh.Implies(small, vh.And(vh.Not(vh.FloatLt(0.5, d)), vh.Not(vh.FloatLt(d, -0.5)))), "C16 round law: |r - x| <= 0.5")
		// a half is rounded away from zero
		vh.Assert(vh.Implies(vh.And(small, vh.FloatEq(d, 0.5)), vh.FloatLt(0, x)), "C16 round law: +half only for positive x")
		vh.Assert(vh.Implies(vh.And(small, vh.FloatEq(d, -0.5)), vh.FloatLt(x, 0)), "C16 round law: -half only for negative x")
		vh.Assert(vh.Implies(small, vh.FloatEq(float64(int64(r)), r)), "C16 round law: r is an integer")
	}
	vh.Reach("number method evaluated")
}

var c16Keys = []string{"a", "b", "zz", "length", "pluck"}

// VHC16Pluck: exactly the requested keys, original values or null, receiver unchanged.
func VHC16Pluck() {
	nk := vh.Choose("objkeys", 3) // object has keys a, b (0..2 of them)
	obj := map[string]any{}
	va := vh.Float("va")
	vh.Assume(vh.IsFinite(va))
	if nk >= 1 {
		obj["a"] = va
	}
	if nk >= 2 {
		obj["b"] = "bee"
	}
	nreq := vh.Choose("nreq", 3)
	doc := map[string]any{"o": obj}
	call := "$.o.pluck("
	var req []string
	for i := 0; i < nreq; i++ {
		var key string
		if vh.Choose("keykind"+itoa(i), 2) == 0 {
			key = c16Keys[vh.Choose("key"+itoa(i), len(c16Keys))]
		} else {
			key = vh.Bytes("ks"+itoa(i), 1) // a symbolic one-byte key: may or may not equal "a" / "b"
		}
		req = append(req, key)
		doc["k"+itoa(i)] = key
		if i > 0 {
			call += ", "
		}
		call += "$.k" + itoa(i)
	}
	call += ")"
	// evaluate, then look at the receiver again through a second expression on the same document
	var out vh.Out
	root := lang.NewCell(lang.NewValue(doc))
	_ = root
	c, k, _ := evalExpr(call, doc)
	vh.Reach("pluck evaluated")
	vh.Assert(k == OK && c != nil && c.Value.Tag == lang.ValueObj, "C16 pluck yields an object")
	res := *c.Value.Obj
	// every requested key is present with the original value or null
	for _, key := range req {
		cell, present := res[key]
		vh.Assert(present, "C16 pluck: every requested key is present in the result")
		inA := vh.And(nk >= 1, vh.EqStr(key, "a"))
		inB := vh.And(nk >= 2, vh.EqStr(key, "b"))
		if inA {
			vh.Assert(isNum(cell) && vh.SameFloat(*cell.Value.Num, va), "C16 pluck keeps the original value")
		} else if inB {
			vh.Assert(isStr(cell) && *cell.Value.Str == "bee", "C16 pluck keeps the original value")
		} else {
			vh.Assert(isNull(cell), "C16 pluck: an absent key is null in the result")
		}
	}
	// and nothing else
	for key := range res {
		found := false
		for _, r := range req {
			found = vh.Or(found, vh.EqStr(key, r))
		}
		vh.Assert(found, "C16 pluck: the result holds only requested keys")
	}
	_ = out
}

var c16NumStrings = []string{"12", "1.5", "", "abc", " 1", "1e3", "-7", "0x10", "1_0", "inf", "NaN", ".5", "5.", "+3"}

// VHC16NumBuiltin: num(s) is the nearest double for a numeric string, null otherwise.
func VHC16NumBuiltin() {
	switch vh.Choose("form", 2) {
	case 0:
		s := vh.Bytes("s", 1+vh.Choose("n", 3))
		strShape("s", sv{kind: kStr, str: s})
		c, k, _ := evalExpr("num($.s)", map[string]any{"s": s})
		f, err := strconv.ParseFloat(s, 64)
		if err != nil {
			vh.Assert(k == OK && isNull(c), "C16 num of a non-numeric string is null")
		} else {
			checkResult(c, k, sres{kind: resNum, num: f}, "C16 num of a numeric string is its value")
		}
	case 1:
		s := c16NumStrings[vh.Choose("case", len(c16NumStrings))]
		c, k, _ := evalExpr("num($.s)", map[string]any{"s": s})
		f, err := strconv.ParseFloat(s, 64)
		if err != nil {
			vh.Assert(k == OK && isNull(c), "C16 num of a non-numeric string is null")
		} else {
			checkResult(c, k, sres{kind: resNum, num: f}, "C16 num of a numeric string is its value")
		}
	}
	vh.Reach("num evaluated")
}

var c16Methods = []string{"length", "push", "pop", "popfirst", "contains", "sort", "pluck", "split", "lower", "upper", "floor", "ceil", "round", "nosuch"}
var c16Builtins = []string{"num", "json", "printf"}
var c16ArgLists = []string{"", "$.p", "$.p, $.q", "$.p, $.q, $.p"}

// VHC16Robust: every method and builtin on every receiver kind with 0-3 arguments of
// every kind returns a value or a runtime error — never a crash (the no-panic
// obligation is carried by every instruction).
func VHC16Robust() {
	// kinds are what matters here; strings are concrete (empty / ASCII / multi-byte), so
	// that the many method x kind combinations stay cheap
	mk := func(name string, kind int) any {
		if kind == kStr {
			return []string{"", "a1", "\u00e9"}[vh.Choose(name+"_str", 3)]
		}
		if kind == kNum {
			return []float64{0, 2.5, -1e300}[vh.Choose(name+"_num", 3)]
		}
		v, _ := mkOperand(name, kind, 1)
		return v
	}
	args := c16ArgLists[vh.Choose("nargs", len(c16ArgLists))]
	rk := vh.Choose("recv", nDocKinds)
	r := mk("r", rk)
	pk := 0
	var p, q any = 1.0, 1.0
	if args != "" { // argument kinds only vary when there are arguments
		pk = vh.Choose("pk", nDocKinds)
		p = mk("p", pk)
		q = mk("q", (rk+pk)%3) // the second argument's kind varies with the others instead of multiplying them
	}
	doc := map[string]any{"r": r, "p": p, "q": q}
	var src string
	if vh.Choose("what", 2) == 0 {
		src = "$.r." + c16Methods[vh.Choose("m", len(c16Methods))] + "(" + args + ")"
	} else {
		b := c16Builtins[vh.Choose("b", len(c16Builtins))]
		if args == "" {
			src = b + "()"
		} else {
			src = b + "($.r, " + args + ")"
		}
	}
	_, k, _ := evalExpr(src, doc)
	vh.Reach("call evaluated")
	vh.Assert(k == OK || k == ErrRuntime, "C16: a method or builtin on any receiver/arguments returns a value or a runtime error")
}

// VHC16Concrete: concrete multi-byte samples (case mapping of non-ASCII text is the
// standard library's; only that jqawk passes strings through unharmed is checked).
func VHC16Concrete() {
	samples := [][3]string{
		{"héllo wörld", "HÉLLO WÖRLD", "héllo wörld"},
		{"ǅ", "Ǆ", "ǆ"},
		{"日本語", "日本語", "日本語"},
		{"aBc", "ABC", "abc"},
		{"\xff\xfe", "\xef\xbf\xbd\xef\xbf\xbd", "\xef\xbf\xbd\xef\xbf\xbd"},
	}
	smp := samples[vh.Choose("sample", len(samples))]
	doc := map[string]any{"s": smp[0]}
	c, k, _ := evalExpr("$.s.upper()", doc)
	checkResult(c, k, sres{kind: resStr, str: smp[1]}, "C16 upper on multi-byte text")
	c, k, _ = evalExpr("$.s.lower()", doc)
	checkResult(c, k, sres{kind: resStr, str: smp[2]}, "C16 lower on multi-byte text")
	c, k, _ = evalExpr("$.s.length()", doc)
	checkResult(c, k, sres{kind: resNum, num: float64(len(smp[0]))}, "C16 length counts bytes of multi-byte text")
	c, k, _ = evalExpr("$.s.split('').length()", doc)
	n := 0
	for range smp[0] {
		n++
	}
	checkResult(c, k, sres{kind: resNum, num: float64(n)}, "C16 split('') yields one piece per character")
	vh.Reach("concrete sample evaluated")
}

// VHC16Fresh: what a method returns is a function of receiver and arguments alone: the
// same call made again after its first result was written into (element stores, push,
// member stores) gives what a first call gives, and the receiver is unchanged.
func VHC16Fresh() {
	n := 1 + vh.Choose("n", 3)
	s := vh.Bytes("s", n)
	for i := 0; i < n; i++ {
		vh.Assume(vh.InRange(s[i], ' ', '~'))
		vh.Assume(vh.Not(vh.OneOf(s[i], "\"\\")))
	}
	sep := vh.Bytes("sep", vh.Choose("seplen", 2))
	doc := func() map[string]any {
		return map[string]any{"s": s, "sep": sep, "o": map[string]any{"a": s, "b": []any{1.0, s}}, "l": []any{s, "b", s}}
	}
	calls := []struct{ call, spoil string }{
		{"$.s.split($.sep)", "r[0] = 'CHANGED'; r[1] = 'TOO'; r.push('more'); r.popfirst()"},
		{"$.o.pluck('a', 'b', 'zz')", "r.a = 'CHANGED'; r.b = 'CHANGED'; r.zz = 1; r.extra = 2"}, /* not r.b[1] = ...: containers are shared (C09), the plucked object holds the original's array */
		{"$.l.sort()", "r[0] = 'CHANGED'; r.pop(); r[5] = 1"},
		{"$.s.upper()", "r = 'CHANGED'"},
		{"num($.s)", "r++"},
		{"json($.o)", "r = r + 'CHANGED'"},
	}
	c := calls[vh.Choose("call", len(calls))]
	again := "{ r = " + c.call + "; " + c.spoil + "; q = " + c.call + "; print q; print $.s, $.o, $.l }"
	first := "{ q = " + c.call + "; print q; print $.s, $.o, $.l }"
	o2, k2 := runProg(first, doc()) // the reference run comes first: state kept between runs must not help either
	o1, k1 := runProg(again, doc())
	vh.Reach("repeated call compared")
	vh.Assert(k1 == OK && k2 == OK, "C16: the calls succeed: "+c.call)
	vh.Assert(o1 == o2, "C16: a repeated call is not affected by writes into the earlier result, and the receiver is unchanged: "+c.call)
}

var c16Reentrant = [][2]string{
	{"function piece(s, n) { if (n == 0) return s\nreturn s.split(piece(',', n - 1))[0] }\nBEGIN { print piece('a,b', 1), piece('c,d,e', 2) }", "a c\n"},
	{"function pk(o, n) { if (n == 0) return 'x'\nreturn o.pluck(pk({y: 2}, n - 1)) }\nBEGIN { print pk({x: 1}, 1), pk({x: 5, y: 6}, 1) }", "{\"x\": 1} {\"x\": 5}\n"},
	{"function up(s, n) { if (n == 0) return s.upper()\nreturn s.lower() + up('Q' + s, n - 1) + s.upper() }\nBEGIN { print up('aB', 2) }", "abqabQQABQABAB\n"},
	{"function len(a, n) { if (n == 0) return a.length()\nreturn a.push(len([7, 8, 9], n - 1)).length() }\nBEGIN { print len([1], 1), len([], 2) }", "2 1\n"},
	{"function r(x, n) { if (n == 0) return x.round()\nreturn x.floor() + r(x + 0.5, n - 1) + x.ceil() }\nBEGIN { print r(1.2, 2) }", "8\n"},
	{"BEGIN { for (i = 0; i < 3; i++) { s = ['a,b', 'c', 'd,e,f'][i]; print s.split(',').length() } }", "2\n1\n3\n"},
}

// VHC16Reentrant: a method runs on the receiver it was looked up on, also when the same
// call expression is entered again (recursion, the next iteration) while its arguments
// are evaluated.
func VHC16Reentrant() {
	c := c16Reentrant[vh.Choose("case", len(c16Reentrant))]
	out, k := runProg(c[0])
	vh.Reach("re-entered call evaluated")
	vh.Assert(k == OK && out == c[1], "C16: a method acts on its own receiver when the call expression is re-entered: "+lbl(c[0]))
}
