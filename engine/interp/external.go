// Copyright 2013 The Go Authors. All rights reserved.
// Use of this source code is governed by a BSD-style
// license that can be found in the LICENSE file.

package interp

// Emulated functions that we cannot interpret because they are
// external or because they use "unsafe" or "reflect" operations.

import (
	"bytes"
	"math"
	"os"
	"runtime"
	"sort"
	"strconv"
	"strings"
	"time"
	"unicode/utf8"
)

type externalFn func(fr *frame, args []value) value

// TODO(adonovan): fix: reflect.Value abstracts an lvalue or an
// rvalue; Set() causes mutations that can be observed via aliases.
// We have not captured that correctly here.

// Key strings are from Function.String().
var externals = make(map[string]externalFn)

func init() {
	// That little dot ۰ is an Arabic zero numeral (U+06F0), categories [Nd].
	for k, v := range map[string]externalFn{
		"(reflect.Value).Bool":            ext۰reflect۰Value۰Bool,
		"(reflect.Value).CanAddr":         ext۰reflect۰Value۰CanAddr,
		"(reflect.Value).CanInterface":    ext۰reflect۰Value۰CanInterface,
		"(reflect.Value).Elem":            ext۰reflect۰Value۰Elem,
		"(reflect.Value).Field":           ext۰reflect۰Value۰Field,
		"(reflect.Value).Float":           ext۰reflect۰Value۰Float,
		"(reflect.Value).Index":           ext۰reflect۰Value۰Index,
		"(reflect.Value).Int":             ext۰reflect۰Value۰Int,
		"(reflect.Value).Interface":       ext۰reflect۰Value۰Interface,
		"(reflect.Value).IsNil":           ext۰reflect۰Value۰IsNil,
		"(reflect.Value).IsValid":         ext۰reflect۰Value۰IsValid,
		"(reflect.Value).Kind":            ext۰reflect۰Value۰Kind,
		"(reflect.Value).Len":             ext۰reflect۰Value۰Len,
		"(reflect.Value).MapIndex":        ext۰reflect۰Value۰MapIndex,
		"(reflect.Value).MapKeys":         ext۰reflect۰Value۰MapKeys,
		"(reflect.Value).NumField":        ext۰reflect۰Value۰NumField,
		"(reflect.Value).NumMethod":       ext۰reflect۰Value۰NumMethod,
		"(reflect.Value).Pointer":         ext۰reflect۰Value۰Pointer,
		"(reflect.Value).Set":             ext۰reflect۰Value۰Set,
		"(reflect.Value).String":          ext۰reflect۰Value۰String,
		"(reflect.Value).Type":            ext۰reflect۰Value۰Type,
		"(reflect.Value).Uint":            ext۰reflect۰Value۰Uint,
		"(reflect.error).Error":           ext۰reflect۰error۰Error,
		"(reflect.rtype).Bits":            ext۰reflect۰rtype۰Bits,
		"(reflect.rtype).Elem":            ext۰reflect۰rtype۰Elem,
		"(reflect.rtype).Field":           ext۰reflect۰rtype۰Field,
		"(reflect.rtype).In":              ext۰reflect۰rtype۰In,
		"(reflect.rtype).Kind":            ext۰reflect۰rtype۰Kind,
		"(reflect.rtype).NumField":        ext۰reflect۰rtype۰NumField,
		"(reflect.rtype).NumIn":           ext۰reflect۰rtype۰NumIn,
		"(reflect.rtype).NumMethod":       ext۰reflect۰rtype۰NumMethod,
		"(reflect.rtype).NumOut":          ext۰reflect۰rtype۰NumOut,
		"(reflect.rtype).Out":             ext۰reflect۰rtype۰Out,
		"(reflect.rtype).Size":            ext۰reflect۰rtype۰Size,
		"(reflect.rtype).String":          ext۰reflect۰rtype۰String,
		"bytes.Equal":                     ext۰bytes۰Equal,
		"bytes.IndexByte":                 ext۰bytes۰IndexByte,
		"math.Abs":                        ext۰math۰Abs,
		"math.Copysign":                   ext۰math۰Copysign,
		"math.Exp":                        ext۰math۰Exp,
		"math.Float32bits":                ext۰math۰Float32bits,
		"math.Float32frombits":            ext۰math۰Float32frombits,
		"math.Float64bits":                ext۰math۰Float64bits,
		"math.Float64frombits":            ext۰math۰Float64frombits,
		"math.Inf":                        ext۰math۰Inf,
		"math.IsNaN":                      ext۰math۰IsNaN,
		"math.Ldexp":                      ext۰math۰Ldexp,
		"math.Log":                        ext۰math۰Log,
		"math.Min":                        ext۰math۰Min,
		"math.NaN":                        ext۰math۰NaN,
		"math.Sqrt":                       ext۰math۰Sqrt,
		"os.Exit":                         ext۰os۰Exit,
		"os.Getenv":                       ext۰os۰Getenv,
		"reflect.New":                     ext۰reflect۰New,
		"reflect.SliceOf":                 ext۰reflect۰SliceOf,
		"reflect.TypeOf":                  ext۰reflect۰TypeOf,
		"reflect.ValueOf":                 ext۰reflect۰ValueOf,
		"reflect.Zero":                    ext۰reflect۰Zero,
		"runtime.Breakpoint":              ext۰runtime۰Breakpoint,
		"runtime.GC":                      ext۰runtime۰GC,
		"runtime.GOMAXPROCS":              ext۰runtime۰GOMAXPROCS,
		"runtime.GOROOT":                  ext۰runtime۰GOROOT,
		"runtime.Goexit":                  ext۰runtime۰Goexit,
		"runtime.Gosched":                 ext۰runtime۰Gosched,
		"runtime.NumCPU":                  ext۰runtime۰NumCPU,
		"time.Sleep":                      ext۰time۰Sleep,
	} {
		externals[k] = v
	}
}

func ext۰bytes۰Equal(fr *frame, args []value) value {
	// func Equal(a, b []byte) bool
	a := args[0].([]value)
	b := args[1].([]value)
	if len(a) != len(b) {
		return false
	}
	for i := range a {
		if a[i] != b[i] {
			return false
		}
	}
	return true
}

func ext۰bytes۰IndexByte(fr *frame, args []value) value {
	// func IndexByte(s []byte, c byte) int
	s := args[0].([]value)
	c := args[1].(byte)
	for i, b := range s {
		if b.(byte) == c {
			return i
		}
	}
	return -1
}

func ext۰math۰Float64frombits(fr *frame, args []value) value {
	return math.Float64frombits(args[0].(uint64))
}

func ext۰math۰Float64bits(fr *frame, args []value) value {
	return math.Float64bits(args[0].(float64))
}

func ext۰math۰Float32frombits(fr *frame, args []value) value {
	return math.Float32frombits(args[0].(uint32))
}

func ext۰math۰Abs(fr *frame, args []value) value {
	return math.Abs(args[0].(float64))
}

func ext۰math۰Copysign(fr *frame, args []value) value {
	return math.Copysign(args[0].(float64), args[1].(float64))
}

func ext۰math۰Exp(fr *frame, args []value) value {
	return math.Exp(args[0].(float64))
}

func ext۰math۰Float32bits(fr *frame, args []value) value {
	return math.Float32bits(args[0].(float32))
}

func ext۰math۰Min(fr *frame, args []value) value {
	return math.Min(args[0].(float64), args[1].(float64))
}

func ext۰math۰NaN(fr *frame, args []value) value {
	return math.NaN()
}

func ext۰math۰IsNaN(fr *frame, args []value) value {
	return math.IsNaN(args[0].(float64))
}

func ext۰math۰Inf(fr *frame, args []value) value {
	return math.Inf(args[0].(int))
}

func ext۰math۰Ldexp(fr *frame, args []value) value {
	return math.Ldexp(args[0].(float64), args[1].(int))
}

func ext۰math۰Log(fr *frame, args []value) value {
	return math.Log(args[0].(float64))
}

func ext۰math۰Sqrt(fr *frame, args []value) value {
	return math.Sqrt(args[0].(float64))
}

func ext۰runtime۰Breakpoint(fr *frame, args []value) value {
	runtime.Breakpoint()
	return nil
}

func ext۰sort۰Ints(fr *frame, args []value) value {
	x := args[0].([]value)
	sort.Slice(x, func(i, j int) bool {
		return x[i].(int) < x[j].(int)
	})
	return nil
}
func ext۰sort۰Strings(fr *frame, args []value) value {
	x := args[0].([]value)
	sort.Slice(x, func(i, j int) bool {
		return x[i].(string) < x[j].(string)
	})
	return nil
}
func ext۰sort۰Float64s(fr *frame, args []value) value {
	x := args[0].([]value)
	sort.Slice(x, func(i, j int) bool {
		return x[i].(float64) < x[j].(float64)
	})
	return nil
}

func ext۰strconv۰Atoi(fr *frame, args []value) value {
	i, e := strconv.Atoi(args[0].(string))
	if e != nil {
		return tuple{i, iface{fr.i.runtimeErrorString, e.Error()}}
	}
	return tuple{i, iface{}}
}
func ext۰strconv۰Itoa(fr *frame, args []value) value {
	return strconv.Itoa(args[0].(int))
}
func ext۰strconv۰FormatFloat(fr *frame, args []value) value {
	return strconv.FormatFloat(args[0].(float64), args[1].(byte), args[2].(int), args[3].(int))
}

func ext۰strings۰Count(fr *frame, args []value) value {
	return strings.Count(args[0].(string), args[1].(string))
}

func ext۰strings۰EqualFold(fr *frame, args []value) value {
	return strings.EqualFold(args[0].(string), args[1].(string))
}
func ext۰strings۰IndexByte(fr *frame, args []value) value {
	return strings.IndexByte(args[0].(string), args[1].(byte))
}

func ext۰strings۰Index(fr *frame, args []value) value {
	return strings.Index(args[0].(string), args[1].(string))
}

func ext۰strings۰Replace(fr *frame, args []value) value {
	// func Replace(s, old, new string, n int) string
	s := args[0].(string)
	new := args[1].(string)
	old := args[2].(string)
	n := args[3].(int)
	return strings.Replace(s, old, new, n)
}

func ext۰strings۰ToLower(fr *frame, args []value) value {
	return strings.ToLower(args[0].(string))
}

func ext۰runtime۰GOMAXPROCS(fr *frame, args []value) value {
	// Ignore args[0]; don't let the interpreted program
	// set the interpreter's GOMAXPROCS!
	return runtime.GOMAXPROCS(0)
}

func ext۰runtime۰Goexit(fr *frame, args []value) value {
	// TODO(adonovan): don't kill the interpreter's main goroutine.
	runtime.Goexit()
	return nil
}

func ext۰runtime۰GOROOT(fr *frame, args []value) value {
	return runtime.GOROOT()
}

func ext۰runtime۰GC(fr *frame, args []value) value {
	runtime.GC()
	return nil
}

func ext۰runtime۰Gosched(fr *frame, args []value) value {
	runtime.Gosched()
	return nil
}

func ext۰runtime۰NumCPU(fr *frame, args []value) value {
	return runtime.NumCPU()
}

func ext۰time۰Sleep(fr *frame, args []value) value {
	time.Sleep(time.Duration(args[0].(int64)))
	return nil
}

func ext۰os۰Getenv(fr *frame, args []value) value {
	name := args[0].(string)
	switch name {
	case "GOSSAINTERP":
		return "1"
	}
	return os.Getenv(name)
}

func ext۰os۰Exit(fr *frame, args []value) value {
	panic(exitPanic(args[0].(int)))
}

func ext۰unicode۰utf8۰DecodeRuneInString(fr *frame, args []value) value {
	r, n := utf8.DecodeRuneInString(args[0].(string))
	return tuple{r, n}
}

// A fake function for turning an arbitrary value into a string.
// Handles only the cases needed by the tests.
// Uses same logic as 'print' built-in.
func ext۰fmt۰Sprint(fr *frame, args []value) value {
	buf := new(bytes.Buffer)
	wasStr := false
	for i, arg := range args[0].([]value) {
		x := arg.(iface).v
		_, isStr := x.(string)
		if i > 0 && !wasStr && !isStr {
			buf.WriteByte(' ')
		}
		wasStr = isStr
		buf.WriteString(toString(x))
	}
	return buf.String()
}
