package ext

import (
	"math"
	"regexp"
	"strconv"

	lang "github.com/alligator/jqawk/src"
	"github.com/alligator/jqawk/zzverif/vh"
)

// Reference semantics of DESIGN.md §3.1/§3.2 (the "section 3" the property cites).

const (
	kNum = iota
	kStr
	kBool
	kNull
	kArr
	kObj
	nDocKinds
	kUnset = 6
	kRegex = 7
	kFn    = 8
)

var kindNames = []string{"num", "str", "bool", "null", "arr", "obj", "unset", "regex", "fn"}

// sv is a specification-level value.
type sv struct {
	kind int
	num  float64
	str  string
	b    bool
}

// mkOperand creates a document value of the given kind with a symbolic payload, and
// its specification twin. strLen = number of symbolic bytes of string operands.
func mkOperand(name string, kind int, strLen int) (any, sv) {
	switch kind {
	case kNum:
		f := vh.Float(name + "_n")
		vh.Assume(vh.IsFinite(f)) // JSON documents hold finite doubles only
		return f, sv{kind: kNum, num: f}
	case kStr:
		// every length from empty up to strLen (thorough: one byte more)
		max := strLen
		if vh.Thorough() {
			max++
		}
		s := vh.Bytes(name+"_s", vh.Choose(name+"_len", max+1))
		return s, sv{kind: kStr, str: s}
	case kBool:
		b := vh.Bool(name + "_b")
		return b, sv{kind: kBool, b: b}
	case kNull:
		return nil, sv{kind: kNull}
	case kArr:
		if vh.Choose(name+"_empty", 2) == 1 {
			return []any{}, sv{kind: kArr}
		}
		return []any{1.0}, sv{kind: kArr}
	case kObj:
		if vh.Choose(name+"_empty", 2) == 1 {
			return map[string]any{}, sv{kind: kObj}
		}
		return map[string]any{"k": 1.0}, sv{kind: kObj}
	}
	panic("mkOperand: kind")
}

// specN is the numeric coercion N(v).
func specN(v sv) float64 {
	switch v.kind {
	case kNum:
		return v.num
	case kStr:
		f, err := strconv.ParseFloat(v.str, 64) // "numeric string" = accepted by ParseFloat
		if err != nil {
			return 0
		}
		return f
	case kBool:
		if v.b {
			return 1
		}
		return 0
	}
	return 0
}

// specT is truthiness T(v).
func specT(v sv) bool {
	switch v.kind {
	case kNum:
		return v.num != 0
	case kStr:
		return len(v.str) > 0
	case kBool:
		return v.b
	case kArr, kObj, kFn:
		return true
	}
	return false // null, unset, regex
}

const (
	resBool = iota
	resNum
	resStrAny // a string whose content the property leaves open
	resStr
	resErr
	resDontCare
)

type sres struct {
	kind int
	b    bool
	num  float64
	str  string
}

func isContainer(v sv) bool { return v.kind == kArr || v.kind == kObj }

// specCompare returns (cmp, err, dontcare) following §3.2.
func specCompare(op string, a, b sv) sres {
	if a.kind == kUnset || b.kind == kUnset {
		switch op {
		case "<", ">":
			return sres{kind: resBool, b: true}
		case "==":
			return sres{kind: resBool, b: false}
		}
		return sres{kind: resDontCare}
	}
	var cmp int
	switch {
	case a.kind == kNull && b.kind == kNull:
		cmp = 0
	case a.kind == kNull:
		if isContainer(b) {
			return sres{kind: resDontCare}
		}
		cmp = -1
	case b.kind == kNull:
		if isContainer(a) {
			return sres{kind: resDontCare}
		}
		cmp = 1
	case isContainer(a) || isContainer(b):
		return sres{kind: resErr}
	case a.kind == kStr && b.kind == kStr:
		if a.str < b.str {
			cmp = -1
		} else if a.str == b.str {
			cmp = 0
		} else {
			cmp = 1
		}
	default:
		x, y := specN(a), specN(b)
		if x != x || y != y {
			return sres{kind: resDontCare} // NaN operands: not determined by the statement
		}
		if x < y {
			cmp = -1
		} else if x > y {
			cmp = 1
		} else {
			cmp = 0
		}
	}
	switch op {
	case "<":
		return sres{kind: resBool, b: cmp < 0}
	case "<=":
		return sres{kind: resBool, b: cmp <= 0}
	case "==":
		return sres{kind: resBool, b: cmp == 0}
	case "!=":
		return sres{kind: resBool, b: cmp != 0}
	case ">":
		return sres{kind: resBool, b: cmp > 0}
	case ">=":
		return sres{kind: resBool, b: cmp >= 0}
	}
	panic("specCompare op")
}

func specArith(op string, a, b sv) sres {
	if op == "+" && (a.kind == kStr || b.kind == kStr) {
		if a.kind == kStr && b.kind == kStr {
			return sres{kind: resStr, str: a.str + b.str}
		}
		// string with a number: S(a)·S(b), decided by VHC05Concat on concrete numbers;
		// string with another kind: some string.
		return sres{kind: resStrAny}
	}
	x, y := specN(a), specN(b)
	switch op {
	case "+":
		return sres{kind: resNum, num: x + y}
	case "-":
		return sres{kind: resNum, num: x - y}
	case "*":
		return sres{kind: resNum, num: x * y}
	case "/":
		if y == 0 {
			return sres{kind: resErr}
		}
		return sres{kind: resNum, num: x / y}
	case "%":
		if !(x > -9.2e18 && x < 9.2e18 && y > -9.2e18 && y < 9.2e18) {
			return sres{kind: resDontCare} // beyond int64 the float->int conversion is platform-defined
		}
		i, j := int(x), int(y)
		if j == 0 {
			return sres{kind: resErr}
		}
		return sres{kind: resNum, num: float64(i % j)}
	}
	panic("specArith op")
}

// checkResult compares the implementation's outcome with the specification's.
func checkResult(cell *lang.Cell, k int, want sres, what string) {
	switch want.kind {
	case resDontCare:
		return
	case resErr:
		vh.Assert(k == ErrRuntime, what+": must be a runtime error")
	case resBool:
		vh.Assert(k == OK && isBool(cell), what+": must yield a boolean")
		vh.Assert(*cell.Value.Bool == want.b, what+": wrong boolean result")
	case resNum:
		vh.Assert(k == OK && isNum(cell), what+": must yield a number")
		vh.Assert(vh.SameFloat(*cell.Value.Num, want.num), what+": wrong numeric result")
	case resStr:
		vh.Assert(k == OK && isStr(cell), what+": must yield a string")
		vh.Assert(*cell.Value.Str == want.str, what+": wrong string result")
	case resStrAny:
		vh.Assert(k == OK && isStr(cell), what+": must yield a string")
	}
}

var arithOps = []string{"+", "-", "*", "/", "%"}
var cmpOps = []string{"<", "<=", "==", "!=", ">", ">="}

func modRange(v sv) {
	// % is claimed for |N| < 2^63 (beyond it the float->int conversion is platform-defined)
	n := specN(v)
	vh.Assume(vh.And(vh.FloatLt(-9.2e18, n), vh.FloatLt(n, 9.2e18)))
}

// strShape restricts a symbolic string operand to the shapes whose numeric coercion
// the engine models exactly: all digits / digits with one '.', or containing a byte
// that no numeric literal can contain (see DESIGN.md §2.6 strconv.ParseFloat).
func strShape(name string, v sv) {
	if v.kind != kStr {
		return
	}
	for i := 0; i < len(v.str); i++ {
		c := v.str[i]
		vh.Assume(vh.Or(vh.InRange(c, '0', '9'), vh.OneOf(c, ". z")))
	}
}

// VHC05Arith: every arithmetic operator × every pair of document operand kinds.
func VHC05Arith() {
	op := arithOps[vh.Choose("op", len(arithOps))]
	lk := vh.Choose("lk", nDocKinds)
	rk := vh.Choose("rk", nDocKinds)
	l, ls := mkOperand("l", lk, 2)
	r, rs := mkOperand("r", rk, 2)
	strShape("l", ls)
	strShape("r", rs)
	if op == "%" {
		modRange(ls)
		modRange(rs)
	}
	if op == "+" && ((lk == kStr && rk == kNum) || (lk == kNum && rk == kStr)) {
		return // string·number concatenation: VHC05Concat
	}
	cell, k, _ := evalExpr("$.l "+op+" $.r", map[string]any{"l": l, "r": r})
	vh.Reach("arith evaluated")
	checkResult(cell, k, specArith(op, ls, rs), "C05 "+kindNames[lk]+" "+op+" "+kindNames[rk])
}

// VHC05Compare: every comparison operator × every pair of document operand kinds.
func VHC05Compare() {
	op := cmpOps[vh.Choose("op", len(cmpOps))]
	lk := vh.Choose("lk", nDocKinds)
	rk := vh.Choose("rk", nDocKinds)
	l, ls := mkOperand("l", lk, 2)
	r, rs := mkOperand("r", rk, 2)
	if !(lk == kStr && rk == kStr) {
		strShape("l", ls)
		strShape("r", rs)
	}
	cell, k, _ := evalExpr("$.l "+op+" $.r", map[string]any{"l": l, "r": r})
	vh.Reach("comparison evaluated")
	checkResult(cell, k, specCompare(op, ls, rs), "C05 "+kindNames[lk]+" "+op+" "+kindNames[rk])
}

var concatNums = []float64{0, math.Copysign(0, -1), 1, -3, 1.5, 0.1, 1e21, 123456789012, -0.000001, 5e-324, 9007199254740993, -9007199254740992, 4503599627370497.5, 1e15, 123456.789}

// VHC05Concat: string + number concatenates string forms (concrete numbers, the
// string's bytes symbolic).
func VHC05Concat() {
	n := concatNums[vh.Choose("n", len(concatNums))]
	s := vh.Bytes("s", 2)
	left := vh.Choose("strLeft", 2) == 0
	ns := strconv.FormatFloat(n, 'f', -1, 64)
	if left {
		cell, k, _ := evalExpr("$.s + $.n", map[string]any{"s": s, "n": n})
		checkResult(cell, k, sres{kind: resStr, str: s + ns}, "C05 str + num")
	} else {
		cell, k, _ := evalExpr("$.n + $.s", map[string]any{"s": s, "n": n})
		checkResult(cell, k, sres{kind: resStr, str: ns + s}, "C05 num + str")
	}
	vh.Reach("concat evaluated")
}

var isNames = []string{"string", "bool", "number", "array", "object", "null"}
var isKinds = []int{kStr, kBool, kNum, kArr, kObj, kNull}

// VHC05LogicUnaryIs: ! - + && || is, on every document kind, with short-circuit
// evaluation observed through a side effect in the right operand.
func VHC05LogicUnaryIs() {
	if vh.Choose("spoil", 2) == 1 {
		// an earlier program wrote into the RESULTS of logical operators (`(!n)++` is what
		// `!n++` means): later results are fresh values all the same
		var sink vh.Out
		_, _ = lang.EvalProgram("BEGIN { n = 0; a = (!n)++; b = (1 && 1)--; c = (0 || 0)++; d = !1; d += 5; e = (!0); e = 'x'; (1 is number)++ }", nil, nil, &sink, false)
	}
	lk := vh.Choose("lk", nDocKinds)
	l, ls := mkOperand("l", lk, 2)
	strShape("l", ls)
	switch vh.Choose("form", 7) {
	case 0:
		cell, k, _ := evalExpr("!$.l", map[string]any{"l": l})
		checkResult(cell, k, sres{kind: resBool, b: !specT(ls)}, "C05 !"+kindNames[lk])
	case 1:
		cell, k, _ := evalExpr("-$.l", map[string]any{"l": l})
		checkResult(cell, k, sres{kind: resNum, num: -specN(ls)}, "C05 unary -"+kindNames[lk])
	case 2:
		cell, k, _ := evalExpr("+$.l", map[string]any{"l": l})
		checkResult(cell, k, sres{kind: resNum, num: specN(ls)}, "C05 unary +"+kindNames[lk])
	case 3:
		rk := vh.Choose("rk", nDocKinds)
		r, rs := mkOperand("r", rk, 1)
		cell, k, _ := evalExpr("$.l && $.r", map[string]any{"l": l, "r": r})
		checkResult(cell, k, sres{kind: resBool, b: specT(ls) && specT(rs)}, "C05 "+kindNames[lk]+" && "+kindNames[rk])
	case 4:
		rk := vh.Choose("rk", nDocKinds)
		r, rs := mkOperand("r", rk, 1)
		cell, k, _ := evalExpr("$.l || $.r", map[string]any{"l": l, "r": r})
		checkResult(cell, k, sres{kind: resBool, b: specT(ls) || specT(rs)}, "C05 "+kindNames[lk]+" || "+kindNames[rk])
	case 5:
		// the right operand runs iff needed: printf writes "x" and yields null (falsy)
		cell, k, out := evalExpr("$.l && printf('x')", map[string]any{"l": l})
		checkResult(cell, k, sres{kind: resBool, b: false}, "C05 "+kindNames[lk]+" && <null>")
		if specT(ls) {
			vh.Assert(out == "x", "C05 &&: right operand must be evaluated when the left is truthy")
		} else {
			vh.Assert(out == "", "C05 &&: right operand must not be evaluated when the left is falsy")
		}
		cell, k, out = evalExpr("$.l || printf('x')", map[string]any{"l": l})
		checkResult(cell, k, sres{kind: resBool, b: specT(ls)}, "C05 "+kindNames[lk]+" || <null>")
		if specT(ls) {
			vh.Assert(out == "", "C05 ||: right operand must not be evaluated when the left is truthy")
		} else {
			vh.Assert(out == "x", "C05 ||: right operand must be evaluated when the left is falsy")
		}
	case 6:
		i := vh.Choose("isName", len(isNames))
		cell, k, _ := evalExpr("$.l is "+isNames[i], map[string]any{"l": l})
		checkResult(cell, k, sres{kind: resBool, b: lk == isKinds[i]}, "C05 "+kindNames[lk]+" is "+isNames[i])
		// a name that is no type name names no type: false for every operand
		bogus := []string{"strng", "str", "numbr", "String", "Number", "list", "x"}[vh.Choose("bogus", 7)]
		cell, k, _ = evalExpr("$.l is "+bogus, map[string]any{"l": l})
		checkResult(cell, k, sres{kind: resBool, b: false}, "C05 "+kindNames[lk]+" is "+bogus+" (not a type name)")
	}
	vh.Reach("logic evaluated")
}

var isAll = []string{"string", "bool", "number", "array", "object", "null", "function", "regex", "unknown"}
var isAllKinds = []int{kStr, kBool, kNum, kArr, kObj, kNull, kFn, kRegex, kUnset}

// VHC05IsProgram: `is` with every type name on every kind of value a program can hold
// (including functions, regex literals and unset variables).
func VHC05IsProgram() {
	exprs := []string{"'s'", "true", "1.5", "[1]", "{k: 1}", "null", "fn", "/re/", "nosuchvar", "$.d", "[]", "{}", "printf"}
	kinds := []int{kStr, kBool, kNum, kArr, kObj, kNull, kFn, kRegex, kUnset, kNum, kArr, kObj, -1}
	vi := vh.Choose("value", len(exprs))
	ni := vh.Choose("name", len(isAll))
	out, k := runProg("function fn() { return 1 }\n{ print "+exprs[vi]+" is "+isAll[ni]+" }", map[string]any{"d": 2.0})
	vh.Reach("is evaluated")
	vh.Assert(k == OK, "C05: `is` never fails")
	if kinds[vi] >= 0 {
		vh.Assert(out == bstr(kinds[vi] == isAllKinds[ni])+"\n", "C05: "+exprs[vi]+" is "+isAll[ni])
	}
}

// Operand spellings for the program route (variables, literals, unset, regex, function).
type progOperand struct {
	text string // expression text
	spec sv
}

// VHC05Program: operands supplied as variables, numeric/string literals with symbolic
// characters, an unset variable, a regex literal and a function name; the expected
// value travels in the document and the program prints comparisons against it.
func VHC05Program() {
	mk := func(name string) progOperand {
		switch vh.Choose(name+"_route", 6) {
		case 0: // variable holding a document number
			return progOperand{text: "v" + name, spec: sv{kind: kNum, num: 0}} // payload patched below
		case 1: // numeric literal with symbolic digits
			d := vh.Bytes(name+"_d", 2)
			vh.Assume(vh.And(vh.InRange(d[0], '0', '9'), vh.InRange(d[1], '0', '9')))
			f, _ := strconv.ParseFloat(d, 64)
			return progOperand{text: d, spec: sv{kind: kNum, num: f}}
		case 2: // string literal with a symbolic character
			c := vh.Bytes(name+"_c", 1)
			vh.Assume(vh.Or(vh.InRange(c[0], '0', '9'), vh.OneOf(c[0], "z ")))
			return progOperand{text: "'" + c + "'", spec: sv{kind: kStr, str: c}}
		case 3:
			return progOperand{text: "unset" + name, spec: sv{kind: kUnset}}
		case 4:
			return progOperand{text: "/ab/", spec: sv{kind: kRegex}}
		}
		return progOperand{text: "fn", spec: sv{kind: kFn}}
	}
	a := mk("a")
	b := mk("b")
	x := vh.Float("x")
	y := vh.Float("y")
	vh.Assume(vh.IsFinite(x))
	vh.Assume(vh.IsFinite(y))
	if a.text == "va" {
		a.spec.num = x
	}
	if b.text == "vb" {
		b.spec.num = y
	}
	ops := []string{"+", "-", "*", "/", "<", "<=", "==", "!=", ">", ">="}
	opi := vh.Choose("op", len(ops))
	op := ops[opi]
	var want sres
	if opi < 4 {
		want = specArith(op, a.spec, b.spec)
	} else {
		want = specCompare(op, a.spec, b.spec)
	}
	doc := map[string]any{"x": x, "y": y}
	prog := "function fn() { return 1 }\n{ va = $.x; vb = $.y; r = " + a.text + " " + op + " " + b.text + "; "
	switch want.kind {
	case resBool:
		doc["e"] = want.b
		prog += "print r is bool, r == $.e }"
		out, k := runProg(prog, doc)
		vh.Assert(k == OK, "C05 program route: "+op+" must not fail")
		vh.Assert(out == "true true\n", "C05 program route: "+kindNames[a.spec.kind]+" "+op+" "+kindNames[b.spec.kind]+" wrong result")
	case resNum:
		doc["e"] = want.num
		prog += "print r is number, r == $.e }"
		out, k := runProg(prog, doc)
		// a non-finite expectation cannot travel in a JSON document (assumed late: the
		// constraint is expensive and irrelevant to lexing and parsing)
		vh.Assume(vh.IsFinite(want.num))
		vh.Assert(k == OK, "C05 program route: "+op+" must not fail")
		vh.Assert(out == "true true\n", "C05 program route: "+kindNames[a.spec.kind]+" "+op+" "+kindNames[b.spec.kind]+" wrong result")
	case resStr:
		doc["e"] = want.str
		prog += "print r is string, r == $.e }"
		out, k := runProg(prog, doc)
		vh.Assert(k == OK, "C05 program route: "+op+" must not fail")
		vh.Assert(out == "true true\n", "C05 program route: string concatenation wrong")
	case resStrAny:
		prog += "print r is string }"
		out, k := runProg(prog, doc)
		vh.Assert(k == OK && out == "true\n", "C05 program route: + with a string operand must yield a string")
	case resErr:
		prog += "print 1 }"
		out, k := runProg(prog, doc)
		vh.Assert(k == ErrRuntime && out == "", "C05 program route: "+op+" must be a runtime error")
	case resDontCare:
		prog += "print 1 }"
		_, _ = runProg(prog, doc)
	}
	vh.Reach("program route evaluated")
}

var regexCorpus = [][3]string{
	// subject, pattern, expectation: "t" match, "f" no match, "e" invalid pattern
	{"abc", "b", "t"}, {"abc", "^b", "f"}, {"", "", "t"}, {"abc", "a.c", "t"}, {"a\nc", "a.c", "f"},
	{"abc", "(", "e"}, {"abc", "[a-", "e"}, {"abc", "a{2,1}", "e"}, {"12", "^[0-9]+$", "t"}, {"1.5", "^[0-9]+$", "f"},
	{"xyz", "x|q", "t"}, {"xyz", "\\d", "f"}, {"x1", "\\d", "t"}, {"abc", "(?i)ABC", "t"}, {"abc", "a(?=b)", "e"},
}

// VHC05Regex: ~ and !~ against RE2 (the library is the environment: concrete corpus),
// right-operand kind check, invalid patterns, numbers matched by their string form.
func VHC05Regex() {
	neg := vh.Choose("neg", 2) == 1
	op := "~"
	if neg {
		op = "!~"
	}
	switch vh.Choose("form", 4) {
	case 0:
		c := regexCorpus[vh.Choose("case", len(regexCorpus))]
		cell, k, _ := evalExpr("$.s "+op+" $.p", map[string]any{"s": c[0], "p": c[1]})
		if c[2] == "e" {
			vh.Assert(k == ErrRuntime, "C05 ~ with an invalid pattern must be a runtime error")
		} else {
			checkResult(cell, k, sres{kind: resBool, b: (c[2] == "t") != neg}, "C05 "+op+" on strings")
		}
	case 1: // right operand must be a regex or a string
		rk := vh.Choose("rk", nDocKinds)
		r, _ := mkOperand("r", rk, 1)
		if rk != kStr {
			_, k, _ := evalExpr("$.s "+op+" $.r", map[string]any{"s": "abc", "r": r})
			vh.Assert(k == ErrRuntime, "C05 ~ with a "+kindNames[rk]+" on the right must be a runtime error")
		}
	case 2: // numbers are matched by their string form
		n := concatNums[vh.Choose("n", len(concatNums))]
		pat := "^" + regexp.QuoteMeta(strconv.FormatFloat(n, 'f', -1, 64)) + "$"
		cell, k, _ := evalExpr("$.n "+op+" $.p", map[string]any{"n": n, "p": pat})
		checkResult(cell, k, sres{kind: resBool, b: !neg}, "C05 number "+op+" string pattern")
	case 3: // regex literal on the right
		cell, k, _ := evalExpr("$.s "+op+" /^a.c$/", map[string]any{"s": "abc"})
		checkResult(cell, k, sres{kind: resBool, b: !neg}, "C05 string "+op+" regex literal")
	}
	vh.Reach("regex evaluated")
}

var c05NumStrings = []string{"+5", "-5", "5", "05", "5.0", ".5", "5.", "+.5e1", "1e3", "1E-2", "inf", "-inf", "+Inf", "Infinity", "nan", "NaN", "0x10", "0x1p-2", "1_000", " 5", "5 ", "", "abc", "5a", "--5", "1e", "１"}

// VHC05NumStrings: strings coerce to numbers exactly when strconv.ParseFloat accepts
// them (signs, exponents, inf / nan spellings, hex floats included), else to 0.
func VHC05NumStrings() {
	str := c05NumStrings[vh.Choose("str", len(c05NumStrings))]
	other := []float64{2, 0, -1.5}[vh.Choose("num", 3)]
	ops := []string{"*", "-", "/", "%", "<", "==", ">="}
	op := ops[vh.Choose("op", len(ops))]
	left := vh.Choose("strLeft", 2) == 0
	ssv, nsv := sv{kind: kStr, str: str}, sv{kind: kNum, num: other}
	var want sres
	a, b := ssv, nsv
	src := "$.s " + op + " $.n"
	if !left {
		a, b = nsv, ssv
		src = "$.n " + op + " $.s"
	}
	switch op {
	case "<", "==", ">=":
		want = specCompare(op, a, b)
	default:
		want = specArith(op, a, b)
	}
	cell, k, _ := evalExpr(src, map[string]any{"s": str, "n": other})
	vh.Reach("numeric string evaluated")
	checkResult(cell, k, want, "C05 numeric-string coercion: "+strconv.Quote(str)+" in `"+src+"`")
}

type c05Val struct {
	doc any
	v   sv
}

var c05RepVals = []c05Val{
	{2.5, sv{kind: kNum, num: 2.5}}, {-1.0, sv{kind: kNum, num: -1}}, {"a", sv{kind: kStr, str: "a"}},
	{"10", sv{kind: kStr, str: "10"}}, {true, sv{kind: kBool, b: true}}, {nil, sv{kind: kNull}},
}

func c05Render(r sres) (string, bool) {
	switch r.kind {
	case resBool:
		return bstr(r.b), true
	case resNum:
		return strconv.FormatFloat(r.num, 'f', -1, 64), true
	case resStr:
		return r.str, true
	}
	return "", false
}

// VHC05Repeat: the value of an operator expression depends only on the current values of
// its operands: the SAME expression evaluated again - for the next record, in the next
// loop iteration, in the next call - with other operands yields the table's value for
// those (nothing computed for earlier operands is reused).
func VHC05Repeat() {
	route := vh.Choose("route", 3)
	if vh.Choose("family", 2) == 1 {
		// ~ and !~ with the pattern (a regex value or a string) held in a variable
		pats := "[/^a/, /^b/, 'a$', 'b$']"
		subj := []string{"ab", "ba"}
		s1, s2 := vh.Choose("s1", 2), vh.Choose("s2", 2)
		i1, i2 := vh.Choose("i1", 4), vh.Choose("i2", 4)
		res := []*regexp.Regexp{regexp.MustCompile("^a"), regexp.MustCompile("^b"), regexp.MustCompile("a$"), regexp.MustCompile("b$")}
		body := "print $.s ~ res[$.i], $.s !~ res[$.i]"
		switch route {
		case 1:
			body = "print m($.s, res[$.i]), !m($.s, res[$.i])"
		case 2:
			body = "for (p, j in res) { if (j == $.i) { print $.s ~ p, $.s !~ p } }"
		}
		prog := "function m(s, p) { return s ~ p }\nBEGIN { res = " + pats + " }\n{ " + body + " }"
		out, k := runProg(prog, []any{map[string]any{"s": subj[s1], "i": float64(i1)}, map[string]any{"s": subj[s2], "i": float64(i2)}})
		m1, m2 := res[i1].MatchString(subj[s1]), res[i2].MatchString(subj[s2])
		vh.Reach("repeated evaluation compared")
		vh.Assert(k == OK && out == bstr(m1)+" "+bstr(!m1)+"\n"+bstr(m2)+" "+bstr(!m2)+"\n", "C05: ~ / !~ evaluated again with another pattern value uses that pattern")
		return
	}
	ops := append(append([]string{}, arithOps...), cmpOps...)
	op := ops[vh.Choose("op", len(ops))]
	a, b := c05RepVals[vh.Choose("a", len(c05RepVals))], c05RepVals[vh.Choose("b", len(c05RepVals))]
	spec := func(x, y sv) sres {
		for _, o := range arithOps {
			if o == op {
				return specArith(op, x, y)
			}
		}
		return specCompare(op, x, y)
	}
	w1, ok1 := c05Render(spec(a.v, b.v))
	w2, ok2 := c05Render(spec(b.v, a.v))
	if !ok1 || !ok2 {
		return // an error or a result the statement leaves open: the single-evaluation harnesses
	}
	body := "print $.l " + op + " $.r"
	switch route {
	case 1:
		body = "print f($.l, $.r)"
	case 2:
		body = "for (q in [1]) { t = $.l " + op + " $.r }\nprint t"
	}
	prog := "function f(x, y) { return x " + op + " y }\n{ " + body + " }"
	out, k := runProg(prog, []any{map[string]any{"l": a.doc, "r": b.doc}, map[string]any{"l": b.doc, "r": a.doc}})
	vh.Reach("repeated evaluation compared")
	vh.Assert(k == OK && out == w1+"\n"+w2+"\n", "C05: `x "+op+" y` evaluated again with other operands yields the value for those operands")
}

// VHC05Self: the same operand on both sides of an operator (the same document field, the
// same variable, the same unset name) gets the table's value like any other pair.
func VHC05Self() {
	ops := append(append([]string{}, cmpOps...), "+", "-", "*", "&&", "||")
	op := ops[vh.Choose("op", len(ops))]
	spec := func(x sv) sres {
		switch op {
		case "+", "-", "*":
			return specArith(op, x, x)
		case "&&":
			return sres{kind: resBool, b: specT(x)}
		case "||":
			return sres{kind: resBool, b: specT(x)}
		}
		return specCompare(op, x, x)
	}
	if vh.Choose("unset", 2) == 1 {
		cell, k, _ := evalExpr("nosuchvar "+op+" nosuchvar", map[string]any{})
		vh.Reach("self operands evaluated")
		checkResult(cell, k, spec(sv{kind: kUnset}), "C05 unset "+op+" the same unset name")
		return
	}
	lk := vh.Choose("lk", nDocKinds)
	l, ls := mkOperand("l", lk, 1)
	strShape("l", ls)
	if op == "+" && lk == kStr {
		return
	}
	route := vh.Choose("route", 2)
	var cell *lang.Cell
	var k int
	if route == 0 {
		cell, k, _ = evalExpr("$.l "+op+" $.l", map[string]any{"l": l})
	} else {
		cell, k, _ = evalExpr("[$.l, $.l][0] "+op+" $.l", map[string]any{"l": l})
	}
	vh.Reach("self operands evaluated")
	checkResult(cell, k, spec(ls), "C05 "+kindNames[lk]+" "+op+" itself")
}
