#!/bin/bash
# usage: tools/seedcheck2.sh <seed-dir> <name> <property> [more properties to run...]
# Like seedcheck.sh, but never touches /repo: the seeded change lives in a scratch
# worktree and the checks run from a scratch copy of /verif with SYMGO_REPO pointing at
# that worktree, so several seeded changes can be tried at once (and while a long run
# against /repo is in progress). Everything scratch is removed at the end.
set -u
SEED="$1"; NAME="$2"; PROP="$3"; shift 3
export GOFLAGS=-mod=mod GOPROXY=off GOSUMDB=off GOTOOLCHAIN=local
V=/verif
W=/tmp/wt/verify-$NAME
VC=/tmp/wt/vcopy-$NAME
rm -rf "$W" "$VC"; git -C /repo worktree prune; git -C /repo worktree add -q "$W" HEAD || exit 2
cd "$W"
cp "$SEED/demo_test.go" ./zz_seed_demo_test.go
go test -vet=off -count=1 -run TestSeedDemo . > /tmp/seed_$NAME.clean.log 2>&1; CLEAN=$?
git apply "$SEED/patch.diff" || { echo "patch does not apply"; exit 2; }
go build ./... > /tmp/seed_$NAME.build.log 2>&1 || { echo "patched tree does not build"; exit 2; }
go test -vet=off -count=1 -run TestSeedDemo . > /tmp/seed_$NAME.patched.log 2>&1; PATCHED=$?
rm -f zz_seed_demo_test.go
go test -vet=off -count=1 ./... > /tmp/seed_$NAME.suite.log 2>&1; SUITE=$?
rm -f jqawk
echo "demo on clean tree: exit $CLEAN (want 0); demo on patched tree: exit $PATCHED (want != 0); suite on patched tree: exit $SUITE (want 0)"
if [ $CLEAN -ne 0 ] || [ $PATCHED -eq 0 ] || [ $SUITE -ne 0 ]; then echo "SEED NOT CONFIRMED"; cd /; git -C /repo worktree remove --force "$W"; exit 3; fi
mkdir -p "$VC"
rsync -a --exclude .git --exclude build --exclude replays --exclude seeded "$V/" "$VC/"
mkdir -p "$VC/build" "$VC/replays" "$VC/evidence"
declare -A RC
for p in $PROP "$@"; do
  (cd "$VC" && SYMGO_REPO="$W" timeout 1800 ./bin/symgo run $p quick > /tmp/seed_$NAME.check_$p.log 2>&1); RC[$p]=$?
  echo "check $p quick on the seeded tree: exit ${RC[$p]}  $(grep -c '^VIOLATION' /tmp/seed_$NAME.check_$p.log) VIOLATION lines"
done
cd /; git -C /repo worktree remove --force "$W"; rm -rf "$VC"
mkdir -p $V/seeded/$NAME
cp "$SEED/patch.diff" "$SEED/demo_test.go" $V/seeded/$NAME/
[ -f "$SEED/NOTES.md" ] && cp "$SEED/NOTES.md" $V/seeded/$NAME/
python3 - "$NAME" "$PROP" "${RC[$PROP]}" "$@" <<'PY'
import json,sys,re,os
name,prop,rc=sys.argv[1:4]; others=sys.argv[4:]
viol=[l.strip() for l in open('/tmp/seed_%s.check_%s.log'%(name,prop)) if l.startswith('VIOLATION') or l.startswith('  assert') or l.startswith('  panic') or l.startswith('  budget')]
meta={"id":name,"property":prop,"needs":"see NOTES.md","confirmed":{"demo_passes_on_clean_tree":True,"demo_fails_on_seeded_tree":True,"suite_passes_on_seeded_tree":True},
"ran":["fresh worktree of /repo HEAD: go test -run TestSeedDemo (clean, patched); go test ./... (patched)","the quick check of %s with the change applied (scratch worktree, SYMGO_REPO)"%prop],
"detected_by_quick_check": rc=="1", "quick_exit":int(rc), "violation_lines":[re.sub(r'/tmp/wt/vcopy-[^/]*','/verif',v) for v in viol[:6]]}
for o in others:
    lines=[l.strip() for l in open('/tmp/seed_%s.check_%s.log'%(name,o)) if l.startswith('VIOLATION')]
    meta.setdefault("other_checks",{})[o]={"violations":len(lines)}
json.dump(meta,open('/verif/seeded/%s/meta.json'%name,'w'),indent=1)
print("stored /verif/seeded/%s (detected=%s)"%(name, rc=="1"))
PY
