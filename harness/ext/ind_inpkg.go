package ext

import (
	lang "github.com/alligator/jqawk/src"
	"github.com/alligator/jqawk/zzverif/vh"
)

// VHIndStep: one inductive step per node kind and static context, children summarised
// (in-package harness: needs the evaluator's unexported entry points).
//
//	C01: the node's outcome is nil, a RuntimeError or a control signal its static
//	     context consumes (break/continue only inside a loop body, return only inside
//	     a function); never a raw error.
//	C08: whenever the run continues, the frame stack is what it was on entry.
//	C11: once a child fails (or exits), no later child is evaluated, nothing more is
//	     written, and the node returns that outcome.
func VHIndStepC01() { indStep(1) }

// VHIndStepC08: the C08 obligations of the same step.
func VHIndStepC08() { indStep(8) }

// VHIndStepC11: the C11 obligations of the same step.
func VHIndStepC11() { indStep(11) }

func indStep(prop int) {
	kind := lang.VhNodeKinds[vh.Choose("kind", len(lang.VhNodeKinds))]
	inLoop := vh.Choose("inLoop", 2) == 1
	inFn := vh.Choose("inFn", 2) == 1
	st := lang.VhRunStep(kind, inLoop, inFn, 5)
	if st.Skipped {
		return
	}
	vh.Reach("step evaluated")
	r := st.Result
	if prop == 1 {
		indC01(kind, inLoop, inFn, r)
	}
	if prop == 8 && r != lang.VhRuntimeErr && r != lang.VhExit {
		vh.Assert(st.FrameKept, "C08 step ["+kind+"]: the frame stack is not restored although the run continues")
	}
	if prop == 11 {
		// C11: a failing / exiting child is the last thing evaluated
		for i, ev := range lang.VhLog {
			if ev.Outcome == lang.VhRuntimeErr || ev.Outcome == lang.VhExit {
				vh.Assert(i == len(lang.VhLog)-1, "C11 step ["+kind+"]: a child is evaluated after another child failed or exited")
				vh.Assert(r == ev.Outcome, "C11 step ["+kind+"]: the node does not pass on its child's failure / exit")
				vh.Assert(st.OutLenAfter == ev.OutLen, "C11 step ["+kind+"]: output is written after a child failed or exited")
			}
		}
	}
}

func indC01(kind string, inLoop, inFn bool, r int) {
	vh.Assert(r != lang.VhOther, "C01 step ["+kind+"]: a raw error (not RuntimeError, not a control signal) is returned")
	if !inLoop {
		vh.Assert(r != lang.VhBreak && r != lang.VhContinue, "C01 step ["+kind+"]: break/continue escapes a node that is not inside a loop body")
	}
	if !inFn {
		vh.Assert(r != lang.VhReturn, "C01 step ["+kind+"]: return escapes a node that is not inside a function")
	}
	if kind == "rules" {
		vh.Assert(r == lang.VhOK || r == lang.VhExit || r == lang.VhRuntimeErr, "C01 step [rules]: only success, exit or a runtime error leave the rule list")
	}
}

// VHIndStepC20: every scope a call or a match opens is one level deeper than the scope
// it was opened from and is refused beyond the limit, so recursion of any shape — direct,
// mutual, through match bodies — runs into the limit.
func VHIndStepC20() {
	kinds := []string{"call", "matchexpr", "matchblock"}
	kind := kinds[vh.Choose("kind", len(kinds))]
	st := lang.VhRunStep(kind, false, true, 5)
	vh.Reach("step evaluated")
	bodySlot := map[string]int{"call": 1003, "matchexpr": 1002, "matchblock": 1002}[kind]
	ran := false
	for _, ev := range lang.VhLog {
		if ev.Slot == bodySlot {
			ran = true
			vh.Assert(ev.Depth == st.D+1, "C20 step ["+kind+"]: the body of a call / match runs one level deeper than its caller")
			vh.Assert(ev.Depth <= st.Limit, "C20 step ["+kind+"]: a body runs beyond the depth limit")
		} else {
			vh.Assert(ev.Depth == st.D, "C20 step ["+kind+"]: operands are evaluated at the caller's depth")
		}
	}
	if st.D+1 > st.Limit {
		vh.Assert(!ran, "C20 step ["+kind+"]: beyond the limit the body must not run")
	}
}

// VHIndCallDepth (C20): from a frame of symbolic depth d a call succeeds iff the new
// depth stays within the limit; otherwise it is a runtime error and no frame is left.
func VHIndCallDepth() {
	d, r, limit, kept := lang.VhCallDepth()
	vh.Reach("call depth evaluated")
	if d+1 <= limit {
		vh.Assert(r == lang.VhOK, "C20: a call within the depth limit succeeds")
	} else {
		vh.Assert(r == lang.VhRuntimeErr, "C20: a call beyond the depth limit is a runtime error")
	}
	vh.Assert(kept, "C08/C20: the frame stack is restored after the call")
	vh.Assert(limit >= 1000 && limit <= 100000, "C20: the call depth limit is a few thousand frames")
}
