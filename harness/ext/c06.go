package ext

import (
	lang "github.com/alligator/jqawk/src"
	"github.com/alligator/jqawk/zzverif/vh"
)

// C06: an expression means its fully parenthesised form under the grammar of
// DESIGN.md §3.3. The oracle evaluates the *intended* tree with the §3 reference
// semantics (not with the implementation), so a mis-grouping shows as a value
// difference that the solver has to witness.

var c06Ops = []string{"*", "/", "%", "+", "-", "==", "!=", "<", "<=", ">", ">=", "&&", "||"}

func c06Prec(op string) int {
	switch op {
	case "*", "/", "%":
		return 4
	case "+", "-":
		return 3
	case "&&", "||":
		return 1
	}
	return 2 // comparisons
}

// tree of binary operators over leaves 0..n-1
type c06Node struct {
	op   string
	l, r *c06Node
	leaf int
}

// c06Intended builds the tree the grammar prescribes for operands o0 op0 o1 op1 o2 ...
// (precedence climbing, equal precedence groups left to right).
func c06Intended(ops []string) *c06Node {
	pos := 0
	var parse func(minPrec int) *c06Node
	parse = func(minPrec int) *c06Node {
		lhs := &c06Node{leaf: pos}
		for pos < len(ops) && c06Prec(ops[pos]) >= minPrec {
			op := ops[pos]
			pos++
			rhs := parse(c06Prec(op) + 1)
			lhs = &c06Node{op: op, l: lhs, r: rhs}
		}
		return lhs
	}
	return parse(0)
}

func (n *c06Node) render(leaves []string) string {
	if n.op == "" {
		return leaves[n.leaf]
	}
	return "(" + n.l.render(leaves) + " " + n.op + " " + n.r.render(leaves) + ")"
}

func sresToSv(r sres) sv {
	switch r.kind {
	case resBool:
		return sv{kind: kBool, b: r.b}
	case resNum:
		return sv{kind: kNum, num: r.num}
	case resStr:
		return sv{kind: kStr, str: r.str}
	}
	panic("sresToSv")
}

// c06Eval evaluates the intended tree with the reference semantics.
func c06Eval(n *c06Node, leaves []sv) sres {
	if n.op == "" {
		v := leaves[n.leaf]
		switch v.kind {
		case kNum:
			return sres{kind: resNum, num: v.num}
		case kBool:
			return sres{kind: resBool, b: v.b}
		}
		panic("c06Eval leaf kind")
	}
	l := c06Eval(n.l, leaves)
	if l.kind == resErr || l.kind == resDontCare {
		return l
	}
	lv := sresToSv(l)
	switch n.op {
	case "&&":
		if !specT(lv) {
			return sres{kind: resBool, b: false}
		}
		r := c06Eval(n.r, leaves)
		if r.kind == resErr || r.kind == resDontCare {
			return r
		}
		return sres{kind: resBool, b: specT(sresToSv(r))}
	case "||":
		if specT(lv) {
			return sres{kind: resBool, b: true}
		}
		r := c06Eval(n.r, leaves)
		if r.kind == resErr || r.kind == resDontCare {
			return r
		}
		return sres{kind: resBool, b: specT(sresToSv(r))}
	}
	r := c06Eval(n.r, leaves)
	if r.kind == resErr || r.kind == resDontCare {
		return r
	}
	rv := sresToSv(r)
	switch n.op {
	case "*", "/", "%", "+", "-":
		return specArith(n.op, lv, rv)
	}
	return specCompare(n.op, lv, rv)
}

// a small domain on which the groupings of every operator pair can be told apart
var c06Domain = []float64{-3, -1, 0, 0.5, 2, 7, 0.1, 0.3} // two inexact ones: regrouping + or * then shows as a rounding difference

// c06Operands: mode 0 = a small finite domain (table lifting: no FP theory, quick witnesses),
// mode 1 = all finite doubles.
func c06Operands(n int) ([]any, []sv) {
	mode := 0
	if vh.Thorough() {
		mode = vh.Choose("mode", 2)
	}
	docs := make([]any, n)
	specs := make([]sv, n)
	names := []string{"a", "b", "c", "d"}
	for i := 0; i < n; i++ {
		var f float64
		if mode == 0 {
			f = vh.FloatFrom(names[i], c06Domain)
		} else {
			f = vh.Float(names[i])
			vh.Assume(vh.IsFinite(f))
		}
		docs[i] = f
		specs[i] = sv{kind: kNum, num: f}
	}
	return docs, specs
}

func c06Check(ops []string) {
	n := len(ops) + 1
	docs, specs := c06Operands(n)
	names := []string{"$.a", "$.b", "$.c", "$.d"}
	doc := map[string]any{}
	src := names[0]
	for i := 0; i < n; i++ {
		doc[names[i][2:]] = docs[i]
		if i > 0 {
			src += " " + ops[i-1] + " " + names[i]
		}
	}
	tree := c06Intended(ops)
	want := c06Eval(tree, specs)
	cell, k, _ := evalExpr(src, doc)
	vh.Reach("expression evaluated")
	checkResult(cell, k, want, "C06 `"+src+"` must mean "+tree.render(names))
	// parentheses override: the explicitly parenthesised text must mean the same
	cell2, k2, _ := evalExpr(tree.render(names), doc)
	checkResult(cell2, k2, want, "C06 parenthesised `"+tree.render(names)+"`")
}

// VHC06Pairs: every ordered pair of binary operators.
func VHC06Pairs() {
	o1 := c06Ops[vh.Choose("op1", len(c06Ops))]
	o2 := c06Ops[vh.Choose("op2", len(c06Ops))]
	c06Check([]string{o1, o2})
}

// VHC06Triples: every ordered triple of binary operators (thorough tier).
func VHC06Triples() {
	o1 := c06Ops[vh.Choose("op1", len(c06Ops))]
	o2 := c06Ops[vh.Choose("op2", len(c06Ops))]
	o3 := c06Ops[vh.Choose("op3", len(c06Ops))]
	c06Check([]string{o1, o2, o3})
}

// VHC06Forced: parentheses that contradict the default grouping are honoured.
func VHC06Forced() {
	o1 := c06Ops[vh.Choose("op1", len(c06Ops))]
	o2 := c06Ops[vh.Choose("op2", len(c06Ops))]
	docs, specs := c06Operands(3)
	doc := map[string]any{"a": docs[0], "b": docs[1], "c": docs[2]}
	names := []string{"$.a", "$.b", "$.c"}
	leaf := func(i int) *c06Node { return &c06Node{leaf: i} }
	left := &c06Node{op: o2, l: &c06Node{op: o1, l: leaf(0), r: leaf(1)}, r: leaf(2)}
	right := &c06Node{op: o1, l: leaf(0), r: &c06Node{op: o2, l: leaf(1), r: leaf(2)}}
	for _, tr := range []*c06Node{left, right} {
		// write only the inner parentheses
		var src string
		if tr == left {
			src = "(" + names[0] + " " + o1 + " " + names[1] + ") " + o2 + " " + names[2]
		} else {
			src = names[0] + " " + o1 + " (" + names[1] + " " + o2 + " " + names[2] + ")"
		}
		cell, k, _ := evalExpr(src, doc)
		checkResult(cell, k, c06Eval(tr, specs), "C06 parentheses override in `"+src+"`")
	}
	vh.Reach("forced grouping evaluated")
}

// VHC06UnarySuffixAssign: prefix operators bind tighter than binary ones and looser
// than call/member/index; assignment groups right to left; invalid targets are syntax
// errors.
func VHC06UnarySuffixAssign() {
	a := vh.Float("a")
	b := vh.Float("b")
	vh.Assume(vh.IsFinite(a))
	vh.Assume(vh.IsFinite(b))
	t := vh.Bool("t")
	doc := map[string]any{"a": a, "b": b, "t": t, "o": map[string]any{"k": a, "arr": []any{b, a}}}
	num := func(x float64) sres { return sres{kind: resNum, num: x} }
	boolean := func(x bool) sres { return sres{kind: resBool, b: x} }
	switch vh.Choose("form", 14) {
	case 0:
		c, k, _ := evalExpr("-$.a * $.b", doc)
		checkResult(c, k, num((-a)*b), "C06 -a * b means (-a) * b")
	case 1:
		c, k, _ := evalExpr("-$.a + $.b", doc)
		checkResult(c, k, num((-a)+b), "C06 -a + b means (-a) + b")
	case 2:
		c, k, _ := evalExpr("!$.t == $.t", doc)
		checkResult(c, k, boolean(false), "C06 !t == t means (!t) == t")
	case 3:
		c, k, _ := evalExpr("!$.t && $.t", doc)
		checkResult(c, k, boolean(false), "C06 !t && t means (!t) && t")
	case 4:
		c, k, _ := evalExpr("-$.o.k", doc)
		checkResult(c, k, num(-a), "C06 -o.k means -(o.k)")
	case 5:
		c, k, _ := evalExpr("-$.o.arr[0]", doc)
		checkResult(c, k, num(-b), "C06 -o.arr[0] means -(o.arr[0])")
	case 6:
		c, k, _ := evalExpr("$.a - -$.b", doc)
		checkResult(c, k, num(a-(-b)), "C06 a - -b means a - (-b)")
	case 7:
		c, k, _ := evalExpr("$.a + $.o.arr[1] * $.b", doc)
		checkResult(c, k, num(a+a*b), "C06 suffixes bind tighter than * and +")
	case 8:
		c, k, _ := evalExpr("$.o.arr.length() + $.a", doc)
		checkResult(c, k, num(2+a), "C06 call binds tighter than +")
	case 9:
		out, k := runProg("function f(v) { return {k: [v, 2]} }\n{ print f($.a).k[0] == $.a, f($.a).k[1] == 2 }", doc)
		vh.Assert(k == OK && out == "true true\n", "C06 call, member and index chain left to right")
	case 10:
		out, k := runProg("{ x = y = $.a; print x == $.a, y == $.a }", doc)
		vh.Assert(k == OK && out == "true true\n", "C06 assignment groups right to left")
	case 11:
		out, k := runProg("{ x = 1; y = 2; x += y *= $.a; print y == 2 * $.a, x == 1 + 2 * $.a }", doc)
		vh.Assume(vh.IsFinite(2 * a))
		vh.Assert(k == OK && out == "true true\n", "C06 compound assignment groups right to left")
	case 12:
		out, k := runProg("{ x = $.a + $.b * 2; print x == $.a + ($.b * 2) }", doc)
		vh.Assume(vh.IsFinite(a + b*2))
		vh.Assert(k == OK && out == "true\n", "C06 assignment binds loosest")
	case 13:
		_, k := runProg("{ print 1 }\n{ $.a + $.b = 1 }", doc)
		vh.Assert(k == ErrSyntax, "C06 assignment to a non-assignable target is a syntax error")
	}
	vh.Reach("template evaluated")
}

// sameOutcome: two evaluations agree in outcome kind and, on success, in value.
func sameOutcome(c1 *lang.Cell, k1 int, c2 *lang.Cell, k2 int) bool {
	if k1 != k2 {
		return false
	}
	if k1 != OK {
		return true
	}
	if c1 == nil || c2 == nil || c1.Value.Tag != c2.Value.Tag {
		return false
	}
	switch {
	case isNum(c1):
		return vh.SameFloat(*c1.Value.Num, *c2.Value.Num)
	case isBool(c1):
		return vh.Iff(*c1.Value.Bool, *c2.Value.Bool)
	case isStr(c1):
		return *c1.Value.Str == *c2.Value.Str
	}
	return true
}

var c06Prefix = []string{"!", "-", "+"}
var c06PfxOperands = []string{"$.a", "$.o.k", "$.o.arr[1]", "$.o.arr.length()", "$.t", "$.s", "2.5 .floor()", "7.5 .ceil()", "[4.5][0].round()"}

// VHC06Prefix: every prefix operator before every binary operator, with every kind of
// suffixed operand: `U x B y` evaluates as `(U x) B y`, `x B U y` as `x B (U y)`, and a
// suffix chain belongs to its operand, not to the operator expression around it.
func VHC06Prefix() {
	u := c06Prefix[vh.Choose("u", len(c06Prefix))]
	ops := append(append([]string{}, c06Ops...), "~", "!~", "is")
	b := ops[vh.Choose("b", len(ops))]
	x := c06PfxOperands[vh.Choose("x", len(c06PfxOperands))]
	// concrete operand values (they travel through regexp and number formatting); only the
	// field the chosen operand reads is varied
	av, bv, t, s := 2.0, []float64{0, 2}[vh.Choose("bv", 2)], true, "a"
	switch x {
	case "$.a", "$.o.k", "$.o.arr[1]":
		av = []float64{0, -3, 2}[vh.Choose("a", 3)]
	case "$.t":
		t = vh.Choose("t", 2) == 1
	case "$.s":
		s = []string{"0", "7", "a", " "}[vh.Choose("s", 4)]
	}
	doc := map[string]any{"a": av, "b": bv, "t": t, "s": s, "o": map[string]any{"k": av, "arr": []any{bv, av}}}
	y := "$.b"
	if b == "is" {
		y = []string{"number", "bool", "string"}[vh.Choose("ty", 3)]
	}
	side := vh.Choose("side", 2)
	var plain, paren string
	if side == 0 {
		plain = u + x + " " + b + " " + y
		paren = "(" + u + "(" + x + ")) " + b + " " + y
	} else {
		if b == "is" {
			return // a prefix operator cannot precede a type name
		}
		plain = y + " " + b + " " + u + x
		paren = y + " " + b + " (" + u + "(" + x + "))"
	}
	c1, k1, _ := evalExpr(plain, doc)
	c2, k2, _ := evalExpr(paren, doc)
	vh.Reach("prefix form compared")
	vh.Assert(k1 != ErrSyntax && k2 != ErrSyntax, "C06: both spellings parse: "+plain)
	vh.Assert(sameOutcome(c1, k1, c2, k2), "C06: `"+plain+"` means `"+paren+"`")
}

var c06AllOps = []string{"*", "/", "%", "+", "-", "==", "!=", "<", "<=", ">", ">=", "~", "!~", "&&", "||"}

// VHC06PairsText: every ordered pair of binary operators, the match operators ~ and !~
// among them, over string and number operands: `x A y B z` evaluates exactly as the text
// parenthesised by the grammar's precedence table (same outcome, kind and value).
func VHC06PairsText() {
	a := c06AllOps[vh.Choose("a", len(c06AllOps))]
	b := c06AllOps[vh.Choose("b", len(c06AllOps))]
	vals := []string{"'ab'", "'b'", "2"}
	x := vals[vh.Choose("x", len(vals))]
	y := vals[vh.Choose("y", len(vals))]
	z := vals[vh.Choose("z", len(vals))]
	doc := map[string]any{}
	plain := x + " " + a + " " + y + " " + b + " " + z
	var paren string
	if c06Prec(a) >= c06Prec(b) {
		paren = "(" + x + " " + a + " " + y + ") " + b + " " + z
	} else {
		paren = x + " " + a + " (" + y + " " + b + " " + z + ")"
	}
	c1, k1, _ := evalExpr(plain, doc)
	c2, k2, _ := evalExpr(paren, doc)
	vh.Reach("pair compared")
	vh.Assert(k1 != ErrSyntax && k2 != ErrSyntax, "C06: both spellings parse: "+plain)
	vh.Assert(sameOutcome(c1, k1, c2, k2), "C06: `"+plain+"` means `"+paren+"`")
}
