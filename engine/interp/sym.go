package interp

// Symbolic scalars and byte strings on top of the concrete interpreter values.

import (
	"fmt"
	"go/token"
	"go/types"
)

// symv is a symbolic scalar of basic kind K (bool, intN, uintN, float64).
type symv struct {
	T *Term
	K types.BasicKind
}

// symStr is a string of concrete length whose bytes are uint8 or symv{K: Uint8}.
type symStr struct{ B []value }

// unsupported aborts the current path: the engine cannot model what the code did.
type unsupported struct{ msg string }

func unsup(f string, a ...any) { panic(unsupported{fmt.Sprintf(f, a...)}) }

func kindBits(k types.BasicKind) (int, bool) { // bits, signed
	switch k {
	case types.Int, types.Int64, types.UntypedInt:
		return 64, true
	case types.Uint, types.Uint64, types.Uintptr:
		return 64, false
	case types.Int32, types.UntypedRune:
		return 32, true
	case types.Uint32:
		return 32, false
	case types.Int16:
		return 16, true
	case types.Uint16:
		return 16, false
	case types.Int8:
		return 8, true
	case types.Uint8:
		return 8, false
	}
	return 0, false
}

func concreteKind(v value) (types.BasicKind, bool) {
	switch v.(type) {
	case bool:
		return types.Bool, true
	case int:
		return types.Int, true
	case int8:
		return types.Int8, true
	case int16:
		return types.Int16, true
	case int32:
		return types.Int32, true
	case int64:
		return types.Int64, true
	case uint:
		return types.Uint, true
	case uint8:
		return types.Uint8, true
	case uint16:
		return types.Uint16, true
	case uint32:
		return types.Uint32, true
	case uint64:
		return types.Uint64, true
	case uintptr:
		return types.Uintptr, true
	case float64:
		return types.Float64, true
	}
	return 0, false
}

func asUint64ish(v value) uint64 {
	switch x := v.(type) {
	case int:
		return uint64(x)
	case int8:
		return uint64(x)
	case int16:
		return uint64(x)
	case int32:
		return uint64(x)
	case int64:
		return uint64(x)
	case uint:
		return uint64(x)
	case uint8:
		return uint64(x)
	case uint16:
		return uint64(x)
	case uint32:
		return uint64(x)
	case uint64:
		return x
	case uintptr:
		return uint64(x)
	}
	unsup("asUint64ish %T", v)
	return 0
}

func constTerm(v value) *Term {
	switch x := v.(type) {
	case bool:
		return BoolConst(x)
	case float64:
		return FPConst(x)
	}
	k, ok := concreteKind(v)
	if !ok {
		unsup("constTerm %T", v)
	}
	b, _ := kindBits(k)
	return BVConst(asUint64ish(v), b)
}

// termOf returns the term and kind of a concrete or symbolic scalar.
func termOf(v value) (*Term, types.BasicKind) {
	if s, ok := v.(symv); ok {
		return s.T, s.K
	}
	k, ok := concreteKind(v)
	if !ok {
		unsup("termOf %T", v)
	}
	return constTerm(v), k
}

func isSym(v value) bool {
	switch v.(type) {
	case symv, symStr:
		return true
	}
	return false
}

// mkVal wraps a term as a value of kind k, returning a concrete Go value when the
// term is a constant.
func mkVal(t *Term, k types.BasicKind) value {
	if t.IsConst() {
		switch k {
		case types.Bool:
			return t.Val == 1
		case types.Float64:
			return t.Float()
		case types.Int:
			return int(t.Val)
		case types.Int8:
			return int8(t.Val)
		case types.Int16:
			return int16(t.Val)
		case types.Int32:
			return int32(t.Val)
		case types.Int64:
			return int64(t.Val)
		case types.Uint:
			return uint(t.Val)
		case types.Uint8:
			return uint8(t.Val)
		case types.Uint16:
			return uint16(t.Val)
		case types.Uint32:
			return uint32(t.Val)
		case types.Uint64:
			return t.Val
		case types.Uintptr:
			return uintptr(t.Val)
		}
	}
	return symv{t, k}
}

func mkBool(t *Term) value { return mkVal(t, types.Bool) }

// boolTerm returns the term of a bool-valued value.
func boolTerm(v value) *Term {
	switch c := v.(type) {
	case bool:
		return BoolConst(c)
	case symv:
		return c.T
	}
	panic(fmt.Sprintf("boolTerm: %T", v))
}

// normStr turns a byte vector into a Go string when fully concrete.
func normStr(b []value) value {
	bs := make([]byte, len(b))
	for i, x := range b {
		c, ok := x.(uint8)
		if !ok {
			cp := make([]value, len(b))
			copy(cp, b)
			return symStr{cp}
		}
		bs[i] = c
	}
	return string(bs)
}

func strBytes(v value) []value {
	switch x := v.(type) {
	case string:
		out := make([]value, len(x))
		for i := 0; i < len(x); i++ {
			out[i] = x[i]
		}
		return out
	case symStr:
		return x.B
	}
	unsup("strBytes %T", v)
	return nil
}

func bv8(v value) *Term { t, _ := termOf(v); return t }

// strEqTerm is the condition "a == b" for two (possibly symbolic) strings.
func strEqTerm(a, b []value) *Term {
	if len(a) != len(b) {
		return TFalse
	}
	t := TTrue
	for i := range a {
		t = And(t, Eq(bv8(a[i]), bv8(b[i])))
		if t.IsFalse() {
			return t
		}
	}
	return t
}

// strLessTerm is the condition "a < b" (bytewise lexicographic order).
func strLessTerm(a, b []value) *Term {
	// from the end: less_i = a[i]<b[i] or (a[i]==b[i] and less_{i+1})
	n := len(a)
	if len(b) < n {
		n = len(b)
	}
	res := BoolConst(len(a) < len(b))
	for i := n - 1; i >= 0; i-- {
		x, y := bv8(a[i]), bv8(b[i])
		res = Or(BVCmp("bvult", x, y), And(Eq(x, y), res))
	}
	return res
}

func symStrBinop(op token.Token, x, y value) (value, bool) {
	_, sx := x.(symStr)
	_, sy := y.(symStr)
	if !sx && !sy {
		return nil, false
	}
	a, b := strBytes(x), strBytes(y)
	switch op {
	case token.ADD:
		return normStr(append(append([]value{}, a...), b...)), true
	case token.EQL:
		return mkBool(strEqTerm(a, b)), true
	case token.NEQ:
		return mkBool(Not(strEqTerm(a, b))), true
	case token.LSS:
		return mkBool(strLessTerm(a, b)), true
	case token.GTR:
		return mkBool(strLessTerm(b, a)), true
	case token.LEQ:
		return mkBool(Not(strLessTerm(b, a))), true
	case token.GEQ:
		return mkBool(Not(strLessTerm(a, b))), true
	}
	unsup("symStr binop %v", op)
	return nil, false
}

func symBinop(op token.Token, x, y value) (value, bool) {
	if r, ok := symStrBinop(op, x, y); ok {
		return r, true
	}
	_, sx := x.(symv)
	_, sy := y.(symv)
	if !sx && !sy {
		return nil, false
	}
	if op == token.SHL || op == token.SHR {
		// the shift count may have another type
		tx, kx := termOf(x)
		ty, ky := termOf(y)
		bits, signed := kindBits(kx)
		_, ysigned := kindBits(ky)
		ty = Resize(ty, bits, false)
		_ = ysigned
		switch {
		case op == token.SHL:
			return mkVal(BVBin("bvshl", tx, ty), kx), true
		case signed:
			return mkVal(BVBin("bvashr", tx, ty), kx), true
		}
		return mkVal(BVBin("bvlshr", tx, ty), kx), true
	}
	tx, kx := termOf(x)
	ty, _ := termOf(y)
	if kx == types.Bool {
		switch op {
		case token.EQL:
			return mkBool(Eq(tx, ty)), true
		case token.NEQ:
			return mkBool(Not(Eq(tx, ty))), true
		}
		unsup("bool binop %v", op)
	}
	if kx == types.Float64 {
		switch op {
		case token.ADD:
			return mkVal(FPBin("fp.add", tx, ty), kx), true
		case token.SUB:
			return mkVal(FPBin("fp.sub", tx, ty), kx), true
		case token.MUL:
			return mkVal(FPBin("fp.mul", tx, ty), kx), true
		case token.QUO:
			return mkVal(FPBin("fp.div", tx, ty), kx), true
		case token.EQL:
			return mkBool(FPCmp("fp.eq", tx, ty)), true
		case token.NEQ:
			return mkBool(Not(FPCmp("fp.eq", tx, ty))), true
		case token.LSS:
			return mkBool(FPCmp("fp.lt", tx, ty)), true
		case token.LEQ:
			return mkBool(FPCmp("fp.leq", tx, ty)), true
		case token.GTR:
			return mkBool(FPCmp("fp.gt", tx, ty)), true
		case token.GEQ:
			return mkBool(FPCmp("fp.geq", tx, ty)), true
		}
		unsup("float binop %v", op)
	}
	_, signed := kindBits(kx)
	pick := func(sg, us string) string {
		if signed {
			return sg
		}
		return us
	}
	switch op {
	case token.ADD:
		return mkVal(BVBin("bvadd", tx, ty), kx), true
	case token.SUB:
		return mkVal(BVBin("bvsub", tx, ty), kx), true
	case token.MUL:
		return mkVal(BVBin("bvmul", tx, ty), kx), true
	case token.QUO:
		return mkVal(BVBin(pick("bvsdiv", "bvudiv"), tx, ty), kx), true
	case token.REM:
		return mkVal(BVBin(pick("bvsrem", "bvurem"), tx, ty), kx), true
	case token.AND:
		return mkVal(BVBin("bvand", tx, ty), kx), true
	case token.OR:
		return mkVal(BVBin("bvor", tx, ty), kx), true
	case token.XOR:
		return mkVal(BVBin("bvxor", tx, ty), kx), true
	case token.AND_NOT:
		return mkVal(BVBin("bvand", tx, BVNot(ty)), kx), true
	case token.EQL:
		return mkBool(Eq(tx, ty)), true
	case token.NEQ:
		return mkBool(Not(Eq(tx, ty))), true
	case token.LSS:
		return mkBool(BVCmp(pick("bvslt", "bvult"), tx, ty)), true
	case token.LEQ:
		return mkBool(BVCmp(pick("bvsle", "bvule"), tx, ty)), true
	case token.GTR:
		return mkBool(BVCmp(pick("bvsgt", "bvugt"), tx, ty)), true
	case token.GEQ:
		return mkBool(BVCmp(pick("bvsge", "bvuge"), tx, ty)), true
	}
	unsup("int binop %v", op)
	return nil, false
}

func symUnop(op token.Token, x value) (value, bool) {
	s, ok := x.(symv)
	if !ok {
		return nil, false
	}
	switch op {
	case token.NOT:
		return mkBool(Not(s.T)), true
	case token.SUB:
		if s.K == types.Float64 {
			return mkVal(FPNeg(s.T), s.K), true
		}
		return mkVal(BVNeg(s.T), s.K), true
	case token.XOR:
		return mkVal(BVNot(s.T), s.K), true
	}
	unsup("unop %v", op)
	return nil, false
}

func isByteSlice(t types.Type) bool {
	if sl, ok := t.Underlying().(*types.Slice); ok {
		if eb, ok := sl.Elem().Underlying().(*types.Basic); ok && eb.Kind() == types.Byte {
			return true
		}
	}
	return false
}

func isString(t types.Type) bool {
	b, ok := t.Underlying().(*types.Basic)
	return ok && b.Info()&types.IsString != 0
}

// symConv handles conversions whose operand is (or contains) symbolic data.
func symConv(tDst, tSrc types.Type, x value) (value, bool) {
	switch v := x.(type) {
	case symv:
		bd, ok := tDst.Underlying().(*types.Basic)
		if !ok {
			unsup("conv sym -> %s", tDst)
		}
		kd := bd.Kind()
		if bd.Info()&types.IsString != 0 {
			// string(rune) / string(byte) of a symbolic scalar: ASCII only.
			return nil, false // handled by caller via symRuneToString (needs the engine)
		}
		if v.K == types.Float64 {
			if kd == types.Float64 {
				return v, true
			}
			bits, signed := kindBits(kd)
			if bits == 0 {
				unsup("float->%v", kd)
			}
			t := FPToInt64(v.T)
			if bits != 64 {
				t = Resize(t, bits, signed)
			}
			return mkVal(t, kd), true
		}
		if kd == types.Float64 {
			_, signed := kindBits(v.K)
			return mkVal(FPFromInt(v.T, signed), kd), true
		}
		_, ssigned := kindBits(v.K)
		bdst, _ := kindBits(kd)
		if bdst == 0 {
			unsup("conv sym int -> %v", kd)
		}
		return mkVal(Resize(v.T, bdst, ssigned), kd), true
	case symStr:
		if isByteSlice(tDst) {
			return append([]value{}, v.B...), true
		}
		if isString(tDst) {
			return v, true
		}
		unsup("conv symStr -> %s", tDst)
	case []value:
		// []byte with symbolic elements -> string
		if isString(tDst) && isByteSlice(tSrc) {
			for _, e := range v {
				if _, ok := e.(symv); ok {
					return normStr(v), true
				}
			}
		}
	}
	return nil, false
}
