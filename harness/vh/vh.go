// Package vh is the harness API. The same harness source is executed symbolically by
// symgo (which intercepts these functions by name before their bodies run) and
// compiled natively for replay, where the bodies below read the replay file.
//
// Rules for harness code: never branch on a symbolic value (no if / && / || on
// symbols) — build conditions with And/Or/Not/Implies/OneOf/InRange and hand them to
// Assume/Assert; compare doubles with SameFloat.
package vh

import (
	"encoding/json"
	"fmt"
	"io"
	"math"
	"os"
	"strconv"
	"strings"
)

// ---- replay state (native build only) ----

type replayFile struct {
	Harness string            `json:"harness"`
	Values  map[string]string `json:"values"` // symbol -> decimal uint64
	Thor    bool              `json:"thorough"`
}

var (
	replay    replayFile
	loaded    bool
	Failures  []string
	Reached   []string
	Observed  []string
	AssumeBad bool
)

func Load(path string) error {
	b, err := os.ReadFile(path)
	if err != nil {
		return err
	}
	if err := json.Unmarshal(b, &replay); err != nil {
		return err
	}
	loaded = true
	return nil
}

func raw(name string) uint64 {
	s, ok := replay.Values[name]
	if !ok {
		return 0
	}
	u, _ := strconv.ParseUint(s, 10, 64)
	return u
}

// ---- nondeterministic inputs ----

func Byte(name string) byte     { return byte(raw(name)) }
func Bool(name string) bool     { return raw(name) != 0 }
func Int(name string) int       { return int(raw(name)) }
func Float(name string) float64 { return math.Float64frombits(raw(name)) }
func Choose(name string, n int) int {
	v := int(raw(name))
	if v < 0 || v >= n {
		AssumeBad = true
		return 0
	}
	return v
}

// IntRange is a symbolic int constrained to lo <= x <= hi (not forked).
func IntRange(name string, lo, hi int) int {
	v := int(raw(name))
	if v < lo || v > hi {
		AssumeBad = true
		return lo
	}
	return v
}

// FloatFrom is a value drawn from a small finite list (symbolic selector).
func FloatFrom(name string, list []float64) float64 {
	i := int(raw(name))
	if i < 0 || i >= len(list) {
		AssumeBad = true
		return list[0]
	}
	return list[i]
}

// IntFrom is an int drawn from a small finite list (symbolic selector).
func IntFrom(name string, list []int) int {
	i := int(raw(name))
	if i < 0 || i >= len(list) {
		AssumeBad = true
		return list[0]
	}
	return list[i]
}

// ByteFrom is a byte drawn from a small set (symbolic selector; see FloatFrom).
func ByteFrom(name string, set string) byte {
	i := int(raw(name))
	if i < 0 || i >= len(set) {
		AssumeBad = true
		return set[0]
	}
	return set[i]
}

// Bytes is a string of n symbolic bytes named name_0 .. name_{n-1}.
func Bytes(name string, n int) string {
	b := make([]byte, n)
	for i := range b {
		b[i] = byte(raw(fmt.Sprintf("%s_%d", name, i)))
	}
	return string(b)
}

// ---- non-branching logic ----

func And(a, b bool) bool     { return a && b }
func Or(a, b bool) bool      { return a || b }
func Not(a bool) bool        { return !a }
func Implies(a, b bool) bool { return !a || b }
func Iff(a, b bool) bool     { return a == b }

func OneOf(b byte, set string) bool { return strings.IndexByte(set, b) >= 0 }
func InRange(b, lo, hi byte) bool   { return lo <= b && b <= hi }
func IntIn(x, lo, hi int) bool      { return lo <= x && x <= hi }
func EqStr(a, b string) bool        { return a == b }
func IsFinite(f float64) bool       { return !math.IsNaN(f) && !math.IsInf(f, 0) }
func IsNaN(f float64) bool          { return f != f }
func IteFloat(c bool, a, b float64) float64 {
	if c {
		return a
	}
	return b
}
func IteInt(c bool, a, b int) int {
	if c {
		return a
	}
	return b
}
func IteBool(c bool, a, b bool) bool {
	if c {
		return a
	}
	return b
}

// SameFloat: identical doubles (same bits, all NaNs identified). Term identity is
// discharged before the solver.
func SameFloat(a, b float64) bool {
	if a != a && b != b {
		return true
	}
	return math.Float64bits(a) == math.Float64bits(b)
}

// FloatEq is IEEE equality (NaN != NaN, +0 == -0) without branching.
func FloatEq(a, b float64) bool { return a == b }
func FloatLt(a, b float64) bool { return a < b }

// ---- assumptions, obligations, markers ----

func Assume(c bool) {
	if !c {
		AssumeBad = true
	}
}

// Natively the first failing assertion ends the harness (the replayed model is the one
// that falsifies it; what follows would run on a state the symbolic path never had).
func Assert(c bool, label string) {
	if !c {
		Failures = append(Failures, label)
		panic(Stop{})
	}
}

// Stop is the panic value that ends a native harness run after a failed assertion.
type Stop struct{}

// Run executes a harness natively, absorbing Stop.
func Run(f func()) {
	defer func() {
		if r := recover(); r != nil {
			if _, ok := r.(Stop); ok {
				return
			}
			panic(r)
		}
	}()
	f()
}

// Reach marks that a path got here (anti-vacuity).
func Reach(label string) { Reached = append(Reached, label) }

// Observe records a concrete observation of this path for conformance replay: under
// symgo the string must be concrete on the path; natively it is printed.
func Observe(s string) { Observed = append(Observed, s) }

// Thorough reports whether the check runs in the thorough tier (harnesses widen their
// bounds there).
func Thorough() bool { return replay.Thor }

// MapOrders switches exploration of Go's map iteration order: 0 = canonical order,
// 1 = every range over a map iterates forward or in reverse, one symbolic direction per
// call of MapOrders(1) (call it before each run), 2 = every range over a map with >= 2
// entries draws its own order from a symbolic permutation. Natively it is a no-op (the
// runtime's own randomisation applies).
func MapOrders(mode int) {}

// Repeats is how often a comparison of two runs is repeated natively when the difference
// depends on Go's randomised map order (which cannot be forced from outside); under
// symgo the order is a symbolic permutation and one comparison suffices, so it returns 1.
func Repeats(native int) int { return native }

// Concrete forces a small symbolic int to a concrete value by forking.
func Concrete(x int) int { return x }

// ---- output sink ----

type Out struct{ B []byte }

func (o *Out) Write(p []byte) (int, error) {
	o.B = append(o.B, p...)
	return len(p), nil
}
func (o *Out) String() string { return string(o.B) }
func (o *Out) Len() int       { return len(o.B) }

// Finish prints the replay verdict and returns the process exit code.
func Finish() int {
	for _, o := range Observed {
		fmt.Println("OBSERVE " + strconv.Quote(o))
	}
	for _, r := range Reached {
		fmt.Println("REACH " + r)
	}
	if AssumeBad {
		fmt.Println("ASSUME-FAIL")
		return 4
	}
	if len(Failures) > 0 {
		for _, f := range Failures {
			fmt.Println("ASSERT-FAIL " + f)
		}
		return 3
	}
	fmt.Println("REPLAY-OK")
	return 0
}

// ---- JSON input streams ----

// Fault kinds for DocStream items.
const (
	Garbage    = 1 // non-JSON text between values
	StrayClose = 2 // a stray ']' or '}' between values
	Truncated  = 3 // a value cut off by end of input
	ReadErr    = 4 // the reader fails with an I/O error at this point
	ReadErrEOF = 5 // the reader fails with an I/O error that WRAPS io.EOF (errors.Is(err, io.EOF) holds, err != io.EOF)
)

// Fault is a DocStream item that is not a complete JSON value.
type Fault struct {
	Kind int
	Text string // bytes to emit (Garbage / StrayClose / Truncated)
}

// DocStream is an io.Reader producing a sequence of JSON values and faults. How the
// items and the reader's errors are packed into Read calls is part of the model (the
// property quantifies over all partitions of the byte stream into read chunks and over
// every position at which the reader fails):
//
//	Mode 0: one item per Read; end of input / an I/O error arrives in a call of its own
//	Mode 1: the last item arrives together with io.EOF (n > 0 and err != nil in one call)
//	Mode 2: two items per Read where available
//	Mode 3: an injected I/O error arrives together with the data of the item before it
//	Mode 4: chunk boundaries fall INSIDE values: a Read delivers the rest of one value and
//	        the beginning of the next (the reader then blocks in the middle of a value)
//
// Read itself is ordinary Go (also under symgo). Only emitChunk differs: natively it
// serialises the chunk's parts to bytes; under symgo it is an intrinsic that puts one
// opaque marker per part into the buffer, and encoding/json's Decoder is replaced by a
// contract-level model that pulls those markers through whatever reader it was given —
// including any wrapper jqawk puts around the DocStream, whose code is interpreted for
// real (DESIGN.md §2.6). So values may carry symbolic leaves.
type DocStream struct {
	Items  []any
	OnRead func(delivered int) // called before each chunk is fetched with the number of items completely delivered so far
	Mode   int
	chunks []chunk
	next   int
	// native only: the rest of a chunk that did not fit the caller's buffer
	pending    []byte
	pendingErr error
}

const (
	partWhole = iota
	partHead
	partTail
)

type part struct{ Kind, Idx int }

type chunk struct {
	Parts     []part
	Err       error
	Delivered int // items completely delivered before this chunk
}

type ioError struct{}

func (ioError) Error() string { return "injected read error" }

var ErrInjected error = ioError{}

type wrappedEOF struct{}

func (wrappedEOF) Error() string { return "injected read error: unexpected end of the connection: EOF" }
func (wrappedEOF) Unwrap() error { return io.EOF }

// ErrWrappedEOF is a failure of the reader, not the end of the input.
var ErrWrappedEOF error = wrappedEOF{}

func (d *DocStream) isReadErr(i int) bool {
	if i >= len(d.Items) {
		return false
	}
	f, ok := d.Items[i].(Fault)
	return ok && (f.Kind == ReadErr || f.Kind == ReadErrEOF)
}

// errAt is the error an injected read failure at item i reports.
func (d *DocStream) errAt(i int) error {
	if f, ok := d.Items[i].(Fault); ok && f.Kind == ReadErrEOF {
		return ErrWrappedEOF
	}
	return ErrInjected
}

func (d *DocStream) isValue(i int) bool {
	if i >= len(d.Items) {
		return false
	}
	_, isFault := d.Items[i].(Fault)
	return !isFault
}

// plan lays the items out into Read calls according to Mode.
func (d *DocStream) plan() []chunk {
	var out []chunk
	n := len(d.Items)
	delivered := 0
	add := func(c chunk) {
		c.Delivered = delivered
		for _, p := range c.Parts {
			if p.Kind == partWhole || p.Kind == partTail {
				delivered++
			}
		}
		out = append(out, c)
	}
	switch d.Mode {
	case 4:
		// every value after the first is cut in two; a chunk ends at each cut (and around
		// injected errors): [I0, head(I1)] [tail(I1), head(I2)] ... [tail(In)]
		var cur []part
		flush := func() {
			if len(cur) > 0 {
				add(chunk{Parts: cur})
				cur = nil
			}
		}
		for i := 0; i < n; i++ {
			switch {
			case d.isReadErr(i):
				flush()
				add(chunk{Err: d.errAt(i)})
			case i > 0 && d.isValue(i) && !d.isReadErr(i-1):
				cur = append(cur, part{partHead, i})
				flush()
				cur = append(cur, part{partTail, i})
			default:
				cur = append(cur, part{partWhole, i})
			}
		}
		flush()
	default:
		for i := 0; i < n; i++ {
			if d.isReadErr(i) {
				if d.Mode == 3 && len(out) > 0 && out[len(out)-1].Err == nil && len(out[len(out)-1].Parts) > 0 {
					out[len(out)-1].Err = d.errAt(i)
				} else {
					add(chunk{Err: d.errAt(i)})
				}
				continue
			}
			c := chunk{Parts: []part{{partWhole, i}}}
			if d.Mode == 2 && i+1 < n && !d.isReadErr(i+1) {
				c.Parts = append(c.Parts, part{partWhole, i + 1})
				i++
			}
			add(c)
		}
		if d.Mode == 1 && len(out) > 0 && out[len(out)-1].Err == nil {
			out[len(out)-1].Err = eof
		}
	}
	out = append(out, chunk{Err: eof, Delivered: delivered})
	return out
}

func (d *DocStream) Read(p []byte) (int, error) {
	if n, err, ok := d.servePending(p); ok {
		return n, err
	}
	if d.chunks == nil {
		d.chunks = d.plan()
	}
	if d.next >= len(d.chunks) {
		return 0, eof
	}
	c := d.chunks[d.next]
	d.next++
	if d.OnRead != nil {
		d.OnRead(c.Delivered)
	}
	return emitChunk(d, p, c)
}

// servePending hands out bytes of a chunk that did not fit the previous buffer.
func (d *DocStream) servePending(p []byte) (int, error, bool) {
	if len(d.pending) == 0 {
		return 0, nil, false
	}
	n := copy(p, d.pending)
	d.pending = d.pending[n:]
	if len(d.pending) == 0 && d.pendingErr != nil {
		err := d.pendingErr
		d.pendingErr = nil
		return n, err, true
	}
	return n, nil, true
}

// emitChunk writes the chunk into p (native: bytes; symgo: intrinsic, one marker per part).
func emitChunk(d *DocStream, p []byte, c chunk) (int, error) {
	var b []byte
	for _, pt := range c.Parts {
		it := d.Items[pt.Idx]
		var text []byte
		if f, ok := it.(Fault); ok {
			text = []byte(f.Text + "\n")
			if f.Kind == Garbage && len(f.Text) >= 1 && len(f.Text) <= 4 && f.Text != "@@" {
				text = []byte(f.Text) // short garbage is exactly its bytes (as in the symbolic model)
			}
		} else {
			jb, err := json.Marshal(it)
			if err != nil {
				return 0, err
			}
			text = append(jb, '\n')
		}
		half := len(text) / 2
		switch pt.Kind {
		case partHead:
			text = text[:half]
		case partTail:
			text = text[half:]
		}
		b = append(b, text...)
	}
	n := copy(p, b)
	if n < len(b) {
		d.pending, d.pendingErr = b[n:], c.Err
		return n, nil
	}
	return n, c.Err
}

var eof = io.EOF
