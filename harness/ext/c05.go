package ext

import (
	"github.com/alligator/jqawk/zzverif/vh"
)

var arithOps = []string{"+", "-", "*", "/", "%"}
var cmpOps = []string{"<", "<=", "==", "!=", ">", ">="}

// VHC05NumArith: arithmetic on two numbers, all finite doubles (what JSON documents
// can hold), operands routed through document fields.
func VHC05NumArith() {
	op := vh.Choose("op", len(arithOps))
	l := vh.Float("l")
	r := vh.Float("r")
	vh.Assume(vh.IsFinite(l))
	vh.Assume(vh.IsFinite(r))
	cell, k, _ := evalExpr("$.l "+arithOps[op]+" $.r", map[string]any{"l": l, "r": r})
	switch arithOps[op] {
	case "+":
		vh.Assert(k == OK && isNum(cell), "C05 + on numbers yields a number")
		vh.Assert(vh.SameFloat(*cell.Value.Num, l+r), "C05 + on numbers is IEEE addition")
	case "-":
		vh.Assert(k == OK && isNum(cell), "C05 - on numbers yields a number")
		vh.Assert(vh.SameFloat(*cell.Value.Num, l-r), "C05 - on numbers is IEEE subtraction")
	case "*":
		vh.Assert(k == OK && isNum(cell), "C05 * on numbers yields a number")
		vh.Assert(vh.SameFloat(*cell.Value.Num, l*r), "C05 * on numbers is IEEE multiplication")
	case "/":
		if r == 0 {
			vh.Reach("div by zero")
			vh.Assert(k == ErrRuntime, "C05 / by zero is a runtime error")
		} else {
			vh.Reach("div ok")
			vh.Assert(k == OK && isNum(cell), "C05 / is an error exactly when the divisor is zero")
			vh.Assert(vh.SameFloat(*cell.Value.Num, l/r), "C05 / on numbers is IEEE division")
		}
	case "%":
		// claimed for |N| < 2^63 (beyond that the float->int conversion is platform-defined)
		vh.Assume(vh.And(vh.FloatLt(-9.2e18, l), vh.FloatLt(l, 9.2e18)))
		vh.Assume(vh.And(vh.FloatLt(-9.2e18, r), vh.FloatLt(r, 9.2e18)))
		i, j := int(l), int(r)
		if j == 0 {
			vh.Reach("mod by zero")
			vh.Assert(k == ErrRuntime, "C05 % by a (truncated) zero is a runtime error")
		} else {
			vh.Reach("mod ok")
			vh.Assert(k == OK && isNum(cell), "C05 % is an error exactly when the truncated divisor is zero")
			vh.Assert(vh.SameFloat(*cell.Value.Num, float64(i%j)), "C05 % is the remainder of the truncated operands")
		}
	}
}
