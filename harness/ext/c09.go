package ext

import (
	"encoding/json"

	lang "github.com/alligator/jqawk/src"
	"github.com/alligator/jqawk/zzverif/vh"
)

// C09 reference store model (DESIGN.md §3.4) on a fixed document shape with the
// written value and the indices chosen from lists; the whole document is compared
// before/after through the JSON output (path by path, via jsonEqual).

func c09Doc(v1 float64) map[string]any {
	return map[string]any{
		"arr": []any{v1, 2.0, 3.0},
		"obj": map[string]any{"k": map[string]any{"z": 1.0}, "l": []any{}},
		"n":   5.0,
		"s":   "str",
		"e":   []any{},
	}
}

func c09Run(prog string, doc any) (any, string, int) {
	var out vh.Out
	ev, err := lang.EvalProgram(prog, []lang.InputFile{{Name: "f", Reader: &vh.DocStream{Items: []any{doc}}}}, nil, &out, false)
	k := legal(err, "EvalProgram")
	if ev == nil {
		return nil, out.String(), k
	}
	txt, jerr := ev.GetRootJson()
	if jerr != nil {
		return nil, out.String(), k
	}
	var back any
	if json.Unmarshal([]byte(txt), &back) != nil {
		return nil, out.String(), k
	}
	return back, out.String(), k
}

var c09Indices = []float64{-4, -3, -1.5, -1, -0.5, 0, 1.5, 2, 3, 5}

// c09StoreIndex is the reference for `arr[idx] = v` on a 3-element array.
func c09StoreIndex(arr []any, idx float64, v any) ([]any, bool) {
	i := int(idx)
	if i < 0 {
		i += len(arr)
		if i < 0 {
			return nil, false
		}
	}
	out := append([]any{}, arr...)
	for len(out) <= i {
		out = append(out, nil)
	}
	out[i] = v
	return out, true
}

// VHC09IndexStore: a store through an index changes exactly that element (negative
// indices from the end, fractional indices truncated, padding with null past the end,
// an index before the start is an error) and nothing else in the document.
func VHC09IndexStore() {
	v1 := float64(vh.Choose("v1", 2))
	idx := c09Indices[vh.Choose("idx", len(c09Indices))]
	doc := c09Doc(v1)
	doc["i"] = idx
	form := vh.Choose("form", 4)
	progs := []string{
		"{ $.arr[$.i] = 9 }",
		"{ $.arr[$.i] += 9 }",
		"{ $.arr[$.i]++ }",
		"{ ++$.arr[$.i] }",
	}
	back, out, k := c09Run(progs[form], doc)
	want := c09Doc(v1)
	want["i"] = idx
	arr := want["arr"].([]any)
	var old any
	i := int(idx)
	if i < 0 {
		i += 3
	}
	if i >= 0 && i < 3 {
		old = arr[i]
	}
	oldNum := 0.0
	if f, ok := old.(float64); ok {
		oldNum = f
	}
	var stored any
	switch form {
	case 0:
		stored = 9.0
	case 1:
		stored = oldNum + 9
	default:
		stored = oldNum + 1
	}
	newArr, ok := c09StoreIndex(arr, idx, stored)
	vh.Reach("index store evaluated")
	if !ok {
		vh.Assert(k == ErrRuntime, "C09: an index before the start of the array is a runtime error")
		return
	}
	want["arr"] = newArr
	vh.Assert(k == OK && out == "", "C09: a store through an index succeeds silently")
	vh.Assert(jsonEqual(back, want), "C09: a store through an index changes exactly the addressed element")
}

type c09Case struct {
	prog string
	edit func(d map[string]any) // expected change of the document (nil: runtime error)
	out  string
}

func obj(d map[string]any, k string) map[string]any { return d[k].(map[string]any) }

var c09Stores = []c09Case{
	{"{ $.obj.k.z = 9 }", func(d map[string]any) { obj(obj(d, "obj"), "k")["z"] = 9.0 }, ""},
	{"{ $.obj.new.deep = 9 }", func(d map[string]any) { obj(d, "obj")["new"] = map[string]any{"deep": 9.0} }, ""},
	{"{ $.obj.l[1] = 9 }", func(d map[string]any) { obj(d, "obj")["l"] = []any{nil, 9.0} }, ""},
	{"{ $.obj.m[1].k = 9 }", func(d map[string]any) { obj(d, "obj")["m"] = []any{nil, map[string]any{"k": 9.0}} }, ""},
	{"{ $.fresh[0] = 'x' }", func(d map[string]any) { d["fresh"] = []any{"x"} }, ""},
	{"{ $.obj['k']['z'] = 9 }", func(d map[string]any) { obj(obj(d, "obj"), "k")["z"] = 9.0 }, ""},
	{"{ $.n.k = 1 }", nil, ""},
	{"{ $.s.k = 1 }", nil, ""},
	{"{ $.n = $.n + 1; $.n += 2; $.n -= 1; $.n *= 3; $.n /= 7 }", func(d map[string]any) { d["n"] = 3.0 }, ""},
	{"{ print $.n++; print $.n; print ++$.n; print $.n; print $.n--; print --$.n; print $.n }", func(d map[string]any) { d["n"] = 5.0 }, "5\n6\n7\n7\n7\n5\n5\n"},
	{"{ x = $.n; x = 9; y = $.arr; z = $.obj.k.z; z = 8 }", func(d map[string]any) {}, ""},
	{"{ a.b.c = 1; a.l[2] = 2; u = 5; u = 'q'; print a.b.c, a.l.length(), u }", func(d map[string]any) {}, "1 3 q\n"},
	{"{ x = 5; x.y = 1 }", nil, ""},
	// keys spelled like methods are ordinary keys, also under a parent that does not exist yet
	{"{ $.meta.length = 2; $.stats.pluck = 1; $.obj.k.push = 3; print $.obj.length(), [1, 2].length(), $.meta.length, {a: 1}.pluck('a') }", func(d map[string]any) {
		d["meta"] = map[string]any{"length": 2.0}
		d["stats"] = map[string]any{"pluck": 1.0}
		obj(obj(d, "obj"), "k")["push"] = 3.0
	}, "2 2 2 {\"a\": 1}\n"},
	// the right-hand side creates the same missing parent that the target needs
	{"{ a.x.p = a.x.q = 1; print a }", func(d map[string]any) {}, "{\"x\": {\"p\": 1, \"q\": 1}}\n"},
	{"{ $.obj.new.p = $.obj.new.q = 1 }", func(d map[string]any) { obj(d, "obj")["new"] = map[string]any{"p": 1.0, "q": 1.0} }, ""},
	{"{ b.l[1] = b.l[0] = 2; c.k.j.p = c.k.j.q = c.k.r = 3; print b, c }", func(d map[string]any) {}, "{\"l\": [2, 2]} {\"k\": {\"j\": {\"p\": 3, \"q\": 3}, \"r\": 3}}\n"},
	{"function mk() { g.made.a = 1; return 2 }\n{ g.made.b = mk(); print g }", func(d map[string]any) {}, "{\"made\": {\"a\": 1, \"b\": 2}}\n"},
	{"{ $.e[0] = 1; $.e[-1] = 2 }", func(d map[string]any) { d["e"] = []any{2.0} }, ""},
	{"{ $.e[-1] = 2 }", nil, ""},
}

// VHC09Stores: member / $-path stores with creation of intermediates; compound
// assignment; ++/--; stores on scalars are errors; variables do not leak into $.
func VHC09Stores() {
	c := c09Stores[vh.Choose("case", len(c09Stores))]
	v1 := float64(vh.Choose("v1", 2))
	back, out, k := c09Run(c.prog, c09Doc(v1))
	vh.Reach("store evaluated")
	if c.edit == nil {
		vh.Assert(k == ErrRuntime, "C09: storing a member on a scalar / before the start is a runtime error: "+c.prog)
		return
	}
	want := c09Doc(v1)
	c.edit(want)
	vh.Assert(k == OK, "C09: the assignment succeeds: "+c.prog)
	vh.Assert(out == c.out, "C09: values of the assignment expressions: "+c.prog)
	vh.Assert(jsonEqual(back, want), "C09: exactly the addressed location changes: "+c.prog)
}

var c09Reads = []string{
	"{ x = $.arr[$.i] }",
	"{ x = $.arr[$.i].k.j }",
	"{ x = $.obj.nokey.deeper[3] }",
	"{ x = $.e[0]; y = $.e[2] }",
	"{ x = $.arr[$.i] == null; y = $.arr.length() + $.obj.length() }",
	"{ if ($.arr[$.i] > 1) x = 1; y = $.arr.contains(7); z = $.arr.sort(); w = $.obj.pluck('k', 'q') }",
	"$.arr[$.i] { x = 1 }",
	"{ print $.arr[$.i] is null, $.s[7], $.s[$.i] is string, $.n.k, $.nosuch.a.b }",
	"{ for (v, j in $.arr) { x = v } for (kk in $.obj) { y = $.obj[kk] } m = match ($.arr) { [a, b, c] => a, z => 0 } }",
	// reads THROUGH members that exist and are null
	"{ x = $.nul.name; y = $.nul[0]; z = $.wrap.inner.a.b; w = $.wrap.list[0].k; v = $.wrap.list[0][2] }",
	"{ if ($.nul.name) x = 1; print $.nul.a, $.wrap.inner[1] is null; for (q in $.wrap.list) { y = q.k } }",
	"$.nul.name || $.wrap.inner[0] { x = 1 }",
	"{ x = $.nul[$.i]; y = $.wrap.list[$.i].z }",
}

// VHC09ReadPurity: evaluating expressions without assignment or mutating calls never
// changes the input document (missing, past-the-end and negative indices included).
func VHC09ReadPurity() {
	p := c09Reads[vh.Choose("prog", len(c09Reads))]
	idx := c09Indices[vh.Choose("idx", len(c09Indices))]
	v1 := float64(vh.Choose("v1", 2))
	doc := c09Doc(v1)
	doc["i"] = idx
	doc["nul"], doc["wrap"] = nil, map[string]any{"inner": nil, "list": []any{nil, nil, nil}}
	back, _, k := c09Run(p, doc)
	vh.Reach("read evaluated")
	if int(idx) < -3 {
		return // a read before the start of the array may be an error (C15); not this harness's subject
	}
	want := c09Doc(v1)
	want["i"] = idx
	want["nul"], want["wrap"] = nil, map[string]any{"inner": nil, "list": []any{nil, nil, nil}}
	vh.Assert(k == OK, "C09: reading never fails for indices at or after the start: "+p)
	vh.Assert(jsonEqual(back, want), "C09: reading never changes the input document: "+p)
}

type c09Share struct {
	prog string
	out  string
	id   string
}

var c09Shares = []c09Share{
	{"BEGIN { a = [1, 2]; b = a; a[0] = 9; print b[0] }", "9\n", "element store through alias"},
	{"BEGIN { a = {k: 1}; b = a; a.k = 9; a.n = 3; print b.k, b.n }", "9 3\n", "object store through alias"},
	{"BEGIN { a = [1]; b = a; a.push(2); print b.length(), b }", "2 [1, 2]\n", "push through alias"},
	{"BEGIN { a = [1, 2]; b = a; a.pop(); print b.length() }", "1\n", "pop through alias"},
	{"BEGIN { a = [1, 2]; b = a; a.popfirst(); print b }", "[2]\n", "popfirst through alias"},
	{"BEGIN { a = [1]; b = a; a[3] = 4; print b.length() }", "4\n", "growth through alias"},
	{"BEGIN { a = []; o = {l: a}; a.push(1); print o.l.length() }", "1\n", "push seen through a container"},
	{"function f(p) { p.push(5); p[0] = 7 }\nBEGIN { a = [1]; f(a); print a }", "[7, 5]\n", "push through a parameter"},
	{"BEGIN { x = 1; y = x; x = 2; print y }", "1\n", "scalar copied on assignment"},
	{"BEGIN { x = 1; a = [x]; o = {k: x}; x = 2; print a[0], o.k }", "1 1\n", "scalar copied into containers"},
	{"function f(p) { p = 9; return p }\nBEGIN { x = 1; f(x); print x }", "1\n", "scalar copied into a parameter"},
	{"BEGIN { a = [1, 2]; for (v in a) { v = 9 } print a }", "[1, 2]\n", "scalar copied into a loop variable"},
	{"BEGIN { s = 'ab'; t = s; s = s + 'c'; print t }", "ab\n", "string copied on assignment"},
	{"BEGIN { a = [[1]]; b = a[0]; b[0] = 5; print a }", "[[5]]\n", "inner container shared"},
}

// VHC09Sharing: scalars are copied, arrays and objects are shared: a mutation through
// one reference is visible through every other.
func VHC09Sharing() {
	ci := vh.Choose("case", len(c09Shares))
	c := c09Shares[ci]
	out, k := runProg(c.prog)
	vh.Reach("sharing evaluated")
	vh.Assert(k == OK, "C09: "+c.id+": the program runs")
	vh.Assert(out == c.out, "C09 sharing: "+c.id)
}

var c09Sources = []string{"$.n", "$.arr[0]", "v", "o.k", "$.missing", "a.gone", "$.obj.k.z", "$.e[3]"}
var c09SrcShow = []string{"5", "1", "7", "8", "null", "null", "1", "null"}

// sinks: '@' = the source expression, '#' = the mutation applied to the copy held by the sink
var c09Sinks = []string{
	"t = @; #t#",
	"t = [@]; #t[0]#",
	"t = {k: @}; #t.k#",
	"t = [0, [@]]; #t[1][0]#",
	"t = []; t.push(@); #t[0]#",
	"g(@)",
	"x = match (@) { z => { #z# } }",
	"t = [@, @]\nfor (q in t) { #q# }",
	// loop variables over the document's own containers, and what methods hand out
	"w = @\nfor (q in $.arr) { #q# }",
	"w = @\nfor (q, qi in $.arr) { #qi# }",
	"w = @\nfor (kk, q in $.obj.k) { #q# }",
	"w = @\nfor (kk, q in $) { if (q is number) { #q# } }",
	"w = @\nfor (kk in $.obj) { #kk# }",
	"w = @\nt = $.obj.k.pluck('z'); #t.z#",
	"w = @\nt = $.arr.sort(); #t[0]#",
	"w = @\nfor (q in $.s) { #q# }",
	// a parameter that received no argument is a fresh null, not the global of the same name
	"gm = 7; gn = 8\nh(@)\nprint gm, gn",
}

// '_' = the place written to
var c09Mutations = []string{"_ = 100", "_ += 1", "_++", "_--", "++_", "_ -= 2", "u = --_"}

// VHC09CopyMatrix: a scalar read from any source (document member / index, variable,
// member of a variable, missing members) and put into any sink (variable, array or
// object literal, nested literal, push argument, parameter, match binding, loop
// variable) is a copy: mutating it through the sink changes neither the source nor the
// input document, and does not create a missing source.
func VHC09CopyMatrix() {
	si := vh.Choose("src", len(c09Sources))
	src := c09Sources[si]
	sinkI := vh.Choose("sink", len(c09Sinks))
	sink := c09Sinks[sinkI]
	mut := c09Mutations[vh.Choose("mut", len(c09Mutations))]
	body := ""
	// the sink text with the mutation spliced in: "#x#" -> "x<mut>"
	rest := sink
	for {
		i := indexByte(rest, '#')
		if i < 0 {
			body += rest
			break
		}
		j := i + 1 + indexByte(rest[i+1:], '#')
		body += rest[:i] + replaceAll(mut, "_", rest[i+1:j])
		rest = rest[j+1:]
	}
	body = replaceAll(body, "@", src)
	gmut := replaceAll(mut, "_", "p")
	hmut := replaceAll(mut, "_", "gm") + "; " + replaceAll(mut, "_", "gn")
	prog := "function g(p) { " + gmut + " }\nfunction h(p, gm, gn) { " + hmut + " }\n{ v = 7; o = {k: 8}; a = {}\nprint " + src + "\n" + body + "\nprint " + src + ", v, o, a }"
	v1 := 1.0
	back, out, k := c09Run(prog, c09Doc(v1))
	vh.Reach("copy evaluated")
	vh.Assert(k == OK, "C09 copy matrix: the program runs: "+lbl(prog))
	show := c09SrcShow[si]
	mid := ""
	if sinkI == len(c09Sinks)-1 {
		mid = "7 8\n" // the globals named like the unfilled parameters are untouched
	}
	vh.Assert(out == show+"\n"+mid+show+" 7 {\"k\": 8} {}\n", "C09 copy matrix: the source is unchanged after its copy was mutated: "+lbl(body))
	vh.Assert(jsonEqual(back, c09Doc(v1)), "C09 copy matrix: the input document is unchanged after a copy of one of its scalars was mutated: "+lbl(body))
}

func indexByte(s string, c byte) int {
	for i := 0; i < len(s); i++ {
		if s[i] == c {
			return i
		}
	}
	return -1
}

func replaceAll(s, old, new string) string {
	out := ""
	for {
		i := -1
		for j := 0; j+len(old) <= len(s); j++ {
			if s[j:j+len(old)] == old {
				i = j
				break
			}
		}
		if i < 0 {
			return out + s
		}
		out += s[:i] + new
		s = s[i+len(old):]
	}
}

// VHC09TwoStores: two successive stores through indices into the same array: the second
// may land in a slot the first one padded; exactly the two addressed elements change.
func VHC09TwoStores() {
	i1 := c09Indices[vh.Choose("i1", len(c09Indices))]
	i2 := c09Indices[vh.Choose("i2", len(c09Indices))]
	doc := c09Doc(1)
	doc["i"], doc["j"] = i1, i2
	form := vh.Choose("form", 3)
	second := []string{"$.arr[$.j] = 'x'", "$.arr[$.j] += 2", "$.arr[$.j]++"}[form]
	back, _, k := c09Run("{ $.arr[$.i] = 7\n"+second+" }", doc)
	want := c09Doc(1)
	want["i"], want["j"] = i1, i2
	arr, ok := c09StoreIndex(want["arr"].([]any), i1, 7.0)
	vh.Reach("two stores evaluated")
	if !ok {
		vh.Assert(k == ErrRuntime, "C09: an index before the start of the array is a runtime error")
		return
	}
	j := int(i2)
	if j < 0 {
		j += len(arr)
	}
	var old float64
	if j >= 0 && j < len(arr) {
		if f, isNum := arr[j].(float64); isNum {
			old = f
		}
	}
	var v any
	switch form {
	case 0:
		v = "x"
	case 1:
		v = old + 2
	default:
		v = old + 1
	}
	arr2, ok2 := c09StoreIndex(arr, i2, v)
	if !ok2 {
		vh.Assert(k == ErrRuntime, "C09: an index before the start of the array is a runtime error")
		return
	}
	want["arr"] = arr2
	vh.Assert(k == OK, "C09: two stores succeed")
	vh.Assert(jsonEqual(back, want), "C09: two successive stores change exactly the two addressed elements (padding slots are independent)")
}
